#!/usr/bin/env python3
"""Confirm a seeded change and run the checks against it.

usage: mutcheck.py <dir with patch.diff, demo_test.go> <property>[,<property>...] [--budget S] [--keep <name>]

1. In a scratch worktree of /repo: the patch applies, builds (with and without -tags verif) and the
   existing suite passes; the demonstration fails with the patch and passes without it.
2. The patch is applied to /repo, `./check <property> --budget S` is run for each listed property, and
   /repo is restored straight afterwards.
With --keep the change is stored as /verif/seeded/<name>/ (patch.diff, demo_test.go, meta.json).
"""
import json, os, re, shutil, subprocess, sys, tempfile, time

ENV = dict(os.environ, GOFLAGS="-mod=mod", GOPROXY="off", GOSUMDB="off")
# MUT_REPO / MUT_VERIF: run the checks of a scratch copy of /verif (same sources, its harness module replaced
# onto a scratch worktree of /repo) instead - used while a long run of the real checks occupies /repo.
REPO = os.environ.get("MUT_REPO", "/repo")
VERIF = os.environ.get("MUT_VERIF", "/verif")
WORKERS = os.environ.get("MUT_WORKERS", "")

def run(cmd, cwd, timeout=900):
    p = subprocess.run(cmd, cwd=cwd, env=ENV, stdout=subprocess.PIPE, stderr=subprocess.STDOUT, text=True, timeout=timeout)
    return p.returncode, p.stdout

def main():
    d = sys.argv[1]
    props = sys.argv[2].split(",")
    budget, keep = "25", None
    args = sys.argv[3:]
    while args:
        if args[0] == "--budget": budget = args[1]; args = args[2:]
        elif args[0] == "--keep": keep = args[1]; args = args[2:]
        else: args = args[1:]
    patch = os.path.join(d, "patch.diff")
    demo = os.path.join(d, "demo_test.go")
    out = {"dir": d, "properties": props}
    wt = tempfile.mkdtemp(prefix="mutchk-", dir="/tmp")
    os.rmdir(wt)
    try:
        rc, o = run(["git", "-C", "/repo", "worktree", "add", "-q", wt, "HEAD"], "/repo")
        rc, o = run(["git", "apply", patch], wt)
        out["applies"] = rc == 0
        if rc != 0:
            out["error"] = o[-500:]; print(json.dumps(out, indent=1)); return 2
        rc1, o1 = run(["go", "build", "./..."], wt)
        rc2, o2 = run(["go", "build", "-tags", "verif", "./..."], wt)
        out["builds"] = rc1 == 0 and rc2 == 0
        rc, o = run(["go", "test", "-vet=off", "-count=1", "./..."], wt)
        out["suite_passes_with_patch"] = rc == 0
        if rc != 0:
            out["suite_output"] = o[-1500:]
        shutil.copy(demo, os.path.join(wt, "zz_seeded_demo_test.go"))
        src = open(demo).read()
        tests = re.findall(r"^func (Test\w+)\(", src, re.M)
        pat = "^(" + "|".join(tests) + ")$"
        rc, o = run(["go", "test", "-vet=off", "-count=1", "-run", pat, "."], wt)
        out["demo_fails_with_patch"] = rc != 0
        run(["git", "checkout", "--", "."], wt)
        rc, o = run(["go", "test", "-vet=off", "-count=1", "-run", pat, "."], wt)
        out["demo_passes_without_patch"] = rc == 0
        if rc != 0:
            out["demo_output_clean"] = o[-1500:]
    finally:
        run(["git", "-C", "/repo", "worktree", "remove", "--force", wt], "/repo")
        shutil.rmtree(wt, ignore_errors=True)
    confirmed = out.get("builds") and out.get("suite_passes_with_patch") and out.get("demo_fails_with_patch") and out.get("demo_passes_without_patch")
    out["confirmed"] = bool(confirmed)
    out["checks"] = {}
    if confirmed:
        rc, o = run(["git", "-C", REPO, "apply", patch], REPO)
        try:
            for p in props:
                t0 = time.time()
                rc, o = run(["./check", p, "--budget", budget] + (["--workers", WORKERS] if WORKERS else []), VERIF, timeout=3600)
                lines = [l for l in o.splitlines() if l.startswith("VIOLATION") or l.startswith("  seed=") or l.startswith("  the worker") or "tier=" in l or l.startswith("TROUBLE") or l.startswith("BUILD")]
                out["checks"][p] = {"exit": rc, "caught": rc == 1, "wall_s": round(time.time() - t0, 1), "lines": [l[:700] for l in lines[:6]]}
        finally:
            run(["git", "-C", REPO, "checkout", "--", "."], REPO)
            run(["git", "-C", REPO, "clean", "-fdq"], REPO)
    print(json.dumps(out, indent=1))
    if keep and confirmed:
        dst = os.path.join("/verif/seeded", keep)
        os.makedirs(dst, exist_ok=True)
        if os.path.abspath(d) != os.path.abspath(dst):
            shutil.copy(patch, os.path.join(dst, "patch.diff"))
            shutil.copy(demo, os.path.join(dst, "demo_test.go"))
        notes = open(os.path.join(d, "notes.md")).read() if os.path.exists(os.path.join(d, "notes.md")) else ""
        if not notes and os.path.exists(os.path.join(dst, "meta.json")):
            notes = json.load(open(os.path.join(dst, "meta.json"))).get("needs_to_manifest", "")
        meta = {"breaks_property": props[0], "also_checked": props[1:], "needs_to_manifest": notes,
                "confirmed": {k: out[k] for k in ("builds", "suite_passes_with_patch", "demo_fails_with_patch", "demo_passes_without_patch")},
                "what_was_run": ["git apply patch.diff in a scratch worktree; go build ./... ; go build -tags verif ./... ; go test -vet=off -count=1 ./... (passes)",
                                 "demo_test.go copied in: go test -run <demo> fails with the patch, passes without",
                                 "git -C %s apply patch.diff ; ./check <property> --budget %s%s ; git checkout -- ." % (REPO, budget, (" --workers " + WORKERS + " (scratch copy of /verif at the same commit, while the thorough tier ran on /repo)") if WORKERS else "")],
                "check_results": out["checks"]}
        json.dump(meta, open(os.path.join(dst, "meta.json"), "w"), indent=1)
    return 0

if __name__ == "__main__":
    sys.exit(main())
