#!/bin/bash
# usage: mutbatch.sh "<C02:m1 C02:m3 ...>" [budget]   -> appends summaries to ${RESULTS:-/tmp/mut/results.txt}
budget=${2:-25}
for item in $1; do
  prop=${item%%:*}; m=${item##*:}
  python3 /verif/tools/mutcheck.py ${MUTROOT:-/tmp/mut}/out-$prop/$m $prop --budget $budget --keep $prop-${KEEPTAG:-}$m 2>&1 | python3 -c "
import json,sys
try:
    o=json.load(sys.stdin)
except Exception as e:
    print('$item PARSE-ERROR',e); sys.exit(0)
print('$item','confirmed=',o.get('confirmed'),{k:o.get(k) for k in ('builds','suite_passes_with_patch','demo_fails_with_patch','demo_passes_without_patch')},{k:(v['caught'],v['exit']) for k,v in o['checks'].items()})
for k,v in o['checks'].items():
    for l in v['lines'][:3]: print('   ',l[:400])
" >> ${RESULTS:-/tmp/mut/results.txt}
done
echo "BATCH DONE $1" >> ${RESULTS:-/tmp/mut/results.txt}
