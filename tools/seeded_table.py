#!/usr/bin/env python3
"""Print the DESIGN.md §14 table from /verif/seeded/*/meta.json."""
import json, glob, os, re
rows = []
status = json.load(open('/verif/seeded/STATUS.json')) if os.path.exists('/verif/seeded/STATUS.json') else {}
for d in sorted(glob.glob('/verif/seeded/C*')):
    m = json.load(open(os.path.join(d, 'meta.json')))
    name = os.path.basename(d)
    notes = m.get('needs_to_manifest', '')
    first = ''
    for line in notes.splitlines():
        line = line.strip('# ').strip()
        if line and not line.lower().startswith(('c0', 'c1', 'c2')) or ' - ' in line or '—' in line:
            first = line
            break
    first = re.sub(r'\s+', ' ', first)[:160]
    caught = [p for p, r in m.get('check_results', {}).items() if r.get('caught')]
    missed = [p for p, r in m.get('check_results', {}).items() if not r.get('caught')]
    how = ''
    for p in caught:
        ls = m['check_results'][p]['lines']
        for l in ls:
            mm = re.search(r'oracle=([^ ]+)', l)
            if mm:
                how = mm.group(1); break
        if not how and any('worker process died' in l for l in ls):
            how = 'process.crash'
        break
    rows.append((name, m['breaks_property'], first, ', '.join(caught) or '—', how, ', '.join(missed), status.get(name, '')))
print('| Seeded change | Written for | What it does (from its notes) | Caught by check | Oracle | Not caught by | Remark |')
print('|---|---|---|---|---|---|---|')
for r in rows:
    print('| %s | %s | %s | %s | %s | %s | %s |' % r)
n = len(rows); c = sum(1 for r in rows if r[3] != '—')
print('\n%d of %d confirmed seeded changes are caught by at least one check within the quick budget (25 s).' % (c, n))
