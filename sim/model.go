package sim

import (
	"encoding/binary"
	"encoding/json"
	"fmt"
	"hash/crc32"
	"sort"
	"strconv"
	"strings"

	sgbucket "github.com/couchbase/sg-bucket"
)

// ---------------------------------------------------------------------------------------
// Reference model of one document. It is a *specification*, written from the property
// statements, the sg-bucket interface comments and the behaviour pinned by rosmar's own
// suite (DESIGN.md Appendix A), not from rosmar's SQL. It is three-valued: where the
// sources do not fix an outcome, either is accepted, but a failure must change nothing and
// a success must produce the state the model describes.
// ---------------------------------------------------------------------------------------

type Doc struct {
	Exists  bool
	HasBody bool
	Body    string
	JSON    int8 // 1 JSON, 0 raw, -1 unspecified
	X       map[string]string
	Cas     uint64 // 0 = not yet known (learned from the next read)
	Exp     uint32
	ExpAny  bool // expiry left unspecified by the last write: learned from the next GetExpiry
	Meta    bool // the current CAS was supplied by the caller (WithMeta), not issued by the clock
	Rev     uint64
}

func (d Doc) clone() Doc {
	n := d
	if d.X != nil {
		n.X = make(map[string]string, len(d.X))
		for k, v := range d.X {
			n.X[k] = v
		}
	}
	return n
}

func (d Doc) State() string {
	switch {
	case !d.Exists:
		return "absent"
	case d.HasBody:
		if len(d.X) > 0 {
			return "live+x"
		}
		return "live"
	default:
		if len(d.X) > 0 {
			return "tomb+x"
		}
		return "tomb"
	}
}

func (d Doc) String() string {
	if !d.Exists {
		return "absent"
	}
	b := "<none>"
	if d.HasBody {
		b = strconv.Quote(d.Body)
	}
	return fmt.Sprintf("{body=%s json=%d x=%s cas=%d exp=%d rev=%d}", b, d.JSON, sortedMap(d.X), d.Cas, d.Exp, d.Rev)
}

// Key used by porcupine to compare states.
func (d Doc) Canon() string { return d.String() }

type Env struct {
	MaxDoc int
	// Named defect switch (known finding KF-C03-resurrection, see DESIGN.md): when set, a
	// WriteUpdateWithXattrs that resurrects a tombstone is allowed to store its result on a
	// tombstone version other than the one its callback was shown. Only used to decide
	// whether a linearizability failure is explained by exactly that recorded defect.
	AllowUncheckedResurrection bool
}

type ExpEvent struct {
	Key      string
	Deletion bool
	HasBody  bool
	Body     string
	X        map[string]string
	JSON     int8
	Cas      uint64
	Exp      uint32
	Rev      uint64
}

type StepOut struct {
	OK      bool
	Why     string
	Tags    []string
	Next    Doc
	Mutated bool      // document changed
	Event   *ExpEvent // feed event expected (nil for touch and for non-mutations)
	Family  string    // "read", "body", "xattr", "delete", "resurrect", "touch", "meta", "subdoc"
}

func isSystemXattr(name string) bool { return len(name) > 0 && name[0] == '_' }

func systemOnly(x map[string]string) map[string]string {
	out := map[string]string{}
	for k, v := range x {
		if isSystemXattr(k) {
			out[k] = v
		}
	}
	return out
}

func absExp(op *Op) uint32 {
	switch op.ExpKind {
	case 0:
		return 0
	case 3:
		return op.ExpArg
	default:
		return op.Now + op.ExpVal
	}
}

func crc32cStr(body []byte) string {
	return fmt.Sprintf("0x%08x", crc32.Checksum(body, crc32.MakeTable(crc32.Castagnoli)))
}

// casMacro is the server's macro-expansion form of a CAS: little-endian bytes as hex.
func casMacro(cas uint64) string {
	var b [8]byte
	binary.LittleEndian.PutUint64(b[:], cas)
	return fmt.Sprintf("0x%x", b[:])
}

func fail(tags []string, format string, args ...any) StepOut {
	return StepOut{OK: false, Why: fmt.Sprintf(format, args...), Tags: tags}
}

func in(s string, set ...string) bool {
	for _, x := range set {
		if s == x {
			return true
		}
	}
	return false
}

// newCasOf decides the CAS of a successful mutation from what was observed.
func newCasOf(r *Res) uint64 {
	if r.Cas != 0 {
		return r.Cas
	}
	return r.NewCas
}

func (d Doc) event(key string) *ExpEvent {
	return &ExpEvent{Key: key, Deletion: !d.HasBody, HasBody: d.HasBody, Body: d.Body, X: d.clone().X, JSON: d.JSON, Cas: d.Cas, Exp: d.Exp, Rev: d.Rev}
}

// mutated finalises a successful mutation: assigns CAS and revision and the event.
func mutated(prev, next Doc, op *Op, r *Res, family string, withEvent bool) StepOut {
	next.Exists = true
	if prev.Exists {
		next.Rev = prev.Rev + 1
	} else {
		next.Rev = 1
	}
	if op.Kind == "SetWithMeta" || op.Kind == "DeleteWithMeta" {
		next.Cas = op.NewCas
		next.Meta = true
	} else {
		next.Cas = newCasOf(r)
		next.Meta = false
		if next.Cas != 0 && prev.Exists && prev.Cas != 0 && !prev.Meta && next.Cas <= prev.Cas {
			return fail([]string{"C04", "C01"}, "mutation got CAS %d, not above the key's previous CAS %d", next.Cas, prev.Cas)
		}
		if r.Cas != 0 && r.NewCas != 0 && r.Cas != r.NewCas {
			return fail([]string{"C01", "C04"}, "returned CAS %d differs from the CAS %d drawn by the committing transaction", r.Cas, r.NewCas)
		}
	}
	if next.X == nil {
		next.X = map[string]string{}
	}
	out := StepOut{OK: true, Next: next, Mutated: true, Family: family}
	if withEvent {
		out.Event = next.event(op.Key)
	}
	return out
}

func unchanged(d Doc, family string) StepOut {
	return StepOut{OK: true, Next: d, Family: family}
}

// tombstoneOf: what Delete/Remove leave behind.
func tombstoneOf(d Doc) Doc {
	n := d.clone()
	n.HasBody, n.Body, n.JSON, n.Exp = false, "", 0, 0
	n.X = systemOnly(d.X)
	return n
}

// Step applies op with observed result r to document state d.
func Step(d Doc, op *Op, r *Res, env Env) StepOut {
	if r.Err == EPanic {
		return fail([]string{"C20", "C01"}, "%s panicked: %s", op.Kind, r.ErrText)
	}
	if in(r.Err, EDB, EClosed, EOther) && !expectOther(op) {
		tags := []string{"C01"}
		if conditionalKinds[op.Kind] {
			tags = append(tags, "C02") // a CAS-conditional write is applied iff its CAS is current: it has no other way to fail
		}
		return fail(tags, "%s failed with unexpected error %s on %s", op.Kind, r.Err, d.State())
	}
	body := ""
	if op.Body != nil {
		body = *op.Body
	}
	exp := absExp(op)
	casCurrent := d.Exists && op.CasArg == d.Cas && d.Cas != 0
	tagIns := []string{"C06"}
	if d.Exists && !d.HasBody {
		tagIns = []string{"C06", "C05"}
	}
	tooBig := func(n int) bool { return env.MaxDoc > 0 && n > env.MaxDoc }

	switch op.Kind {
	// ------------------------------------------------------------------ reads
	case "GetRaw", "Get":
		if d.HasBody {
			if r.Err != "" {
				return fail([]string{"C01"}, "%s of a live document failed: %s", op.Kind, r.Err)
			}
			if !r.HasBody || string(r.Body) != d.Body {
				return fail([]string{"C01"}, "%s returned body %q, expected %q", op.Kind, r.Body, d.Body)
			}
			if d.Cas != 0 && r.Cas != d.Cas {
				return fail([]string{"C01"}, "%s returned CAS %d, expected %d", op.Kind, r.Cas, d.Cas)
			}
		} else if r.Err != EMissing {
			tags := []string{"C01"}
			if d.Exists {
				tags = append(tags, "C05")
			}
			return fail(tags, "%s on %s returned %s body=%q, expected missing", op.Kind, d.State(), orOK(r.Err), r.Body)
		}
		return unchanged(d, "read")
	case "Exists":
		if r.Err != "" || r.Exists != d.HasBody {
			tags := []string{"C01"}
			if d.Exists && !d.HasBody {
				tags = append(tags, "C05")
			}
			return fail(tags, "Exists on %s returned %v err=%s", d.State(), r.Exists, r.Err)
		}
		return unchanged(d, "read")
	case "GetExpiry":
		switch {
		case d.HasBody && d.ExpAny:
			if r.Err != "" {
				return fail([]string{"C01"}, "GetExpiry of a live document failed: %s", r.Err)
			}
			n := d.clone()
			n.Exp, n.ExpAny = r.Exp, false
			return unchanged(n, "read")
		case d.HasBody:
			if r.Err != "" || r.Exp != d.Exp {
				return fail([]string{"C01", "C14"}, "GetExpiry returned %d err=%s, expected %d", r.Exp, r.Err, d.Exp)
			}
		case d.Exists: // tombstone: missing, 0, or the expiry an xattr write explicitly gave the tombstone
			if !(r.Err == EMissing || (r.Err == "" && (r.Exp == 0 || r.Exp == d.Exp))) {
				return fail([]string{"C05", "C14"}, "GetExpiry on a tombstone returned %d err=%s, expected 0 or missing", r.Exp, r.Err)
			}
		default:
			if r.Err != EMissing {
				return fail([]string{"C01"}, "GetExpiry on an absent key returned %d err=%s", r.Exp, r.Err)
			}
		}
		return unchanged(d, "read")
	case "GetWithXattrs", "GetXattrs":
		return stepXattrRead(d, op, r)
	case "GetSubDocRaw":
		return stepSubdocRead(d, op, r)

	// ------------------------------------------------------------------ insert-style
	case "Add", "AddRaw":
		if tooBig(len(body)) {
			if r.Err != ETooBig {
				return fail([]string{"C01"}, "%s of an oversize body returned %s", op.Kind, orOK(r.Err))
			}
			return unchanged(d, "body")
		}
		if r.Err != "" {
			return fail(tagIns, "%s failed with %s on %s", op.Kind, r.Err, d.State())
		}
		if d.HasBody {
			if r.Added {
				return fail(tagIns, "%s reported added=true on a live document", op.Kind)
			}
			return unchanged(d, "body")
		}
		if !r.Added {
			return fail(tagIns, "%s reported added=false on %s (no body)", op.Kind, d.State())
		}
		n := Doc{HasBody: true, Body: body, JSON: 1, Exp: exp}
		if op.Kind == "AddRaw" {
			n.JSON = -1
		}
		return mutated(d, n, op, r, ifelseS(d.Exists, "resurrect", "body"), true)

	case "Set", "SetRaw":
		if tooBig(len(body)) {
			if r.Err != ETooBig {
				return fail([]string{"C01"}, "%s of an oversize body returned %s", op.Kind, orOK(r.Err))
			}
			return unchanged(d, "body")
		}
		if r.Err != "" {
			return fail([]string{"C01"}, "%s failed with %s", op.Kind, r.Err)
		}
		n := Doc{HasBody: true, Body: body, JSON: 1, Exp: exp}
		if op.Kind == "SetRaw" {
			n.JSON = 0
		}
		fam := "body"
		if d.HasBody {
			n.X = d.clone().X
			if op.Preserve {
				n.Exp = d.Exp
			}
		} else if d.Exists {
			fam = "resurrect"
			if op.Preserve {
				n.Exp = d.Exp // a proper tombstone carries expiry 0
			}
		}
		return mutated(d, n, op, r, fam, true)

	case "WriteCas":
		return stepWriteCas(d, op, r, env, body, exp, casCurrent, tagIns)

	// ------------------------------------------------------------------ deletes
	case "Remove", "Delete":
		tags := []string{"C01", "C05"}
		if op.Kind == "Remove" {
			tags = []string{"C02", "C05"}
		}
		if !d.Exists {
			if r.Err != EMissing {
				return fail(tags, "%s of an absent key returned %s", op.Kind, orOK(r.Err))
			}
			return unchanged(d, "delete")
		}
		if op.Kind == "Remove" && !casCurrent {
			if !in(r.Err, ECas, EMissing, EExists) {
				return fail(tags, "Remove with a CAS that is not current (%d vs %d) returned %s", op.CasArg, d.Cas, orOK(r.Err))
			}
			return unchanged(d, "delete")
		}
		if !d.HasBody {
			// deleting a tombstone: unspecified; either missing, or a fresh tombstone revision
			if r.Err == EMissing {
				return unchanged(d, "delete")
			}
			if r.Err != "" {
				return fail(tags, "%s of a tombstone returned %s", op.Kind, r.Err)
			}
			return mutated(d, tombstoneOf(d), op, r, "delete", true)
		}
		if r.Err != "" {
			return fail(tags, "%s of a live document failed with %s", op.Kind, r.Err)
		}
		return mutated(d, tombstoneOf(d), op, r, "delete", true)

	case "DeleteWithXattrs":
		if !d.Exists {
			if r.Err != EMissing {
				return fail([]string{"C05"}, "DeleteWithXattrs of an absent key returned %s", orOK(r.Err))
			}
			return unchanged(d, "delete")
		}
		for _, k := range op.XDel {
			if !validXattrName(k) {
				// an unsupported name must fail the whole call when there are xattrs to edit; with no
				// xattrs at all the list is never looked at (unspecified: either)
				if r.Err == "" && len(d.X) > 0 {
					return fail([]string{"C07"}, "DeleteWithXattrs accepted the unsupported xattr name %q", k)
				}
				if r.Err != "" {
					return unchanged(d, "delete")
				}
			}
		}
		if r.Err != "" {
			if !d.HasBody && r.Err == EMissing {
				return unchanged(d, "delete")
			}
			return fail([]string{"C05", "C07"}, "DeleteWithXattrs on %s failed with %s", d.State(), r.Err)
		}
		n := tombstoneOf(d)
		for _, k := range op.XDel {
			delete(n.X, k)
		}
		return mutated(d, n, op, r, "delete", true)

	// ------------------------------------------------------------------ read-modify-write
	case "Update":
		return stepUpdate(d, op, r, env)
	case "Incr":
		if d.HasBody {
			v, perr := strconv.ParseUint(d.Body, 10, 64)
			if perr != nil {
				if r.Err == "" {
					return fail([]string{"C01"}, "Incr of non-numeric body %q succeeded (%d)", d.Body, r.Val)
				}
				return unchanged(d, "body")
			}
			if r.Err != "" {
				if strconv.FormatUint(v, 10) != d.Body {
					return unchanged(d, "body") // digits but not a canonical decimal ("017"): unspecified
				}
				return fail([]string{"C01", "C03"}, "Incr failed with %s", r.Err)
			}
			if r.Val != v+op.Amt {
				return fail([]string{"C03", "C01"}, "Incr returned %d, expected %d+%d", r.Val, v, op.Amt)
			}
			n := d.clone()
			n.Body, n.JSON, n.Exp = strconv.FormatUint(v+op.Amt, 10), 1, exp
			return mutated(d, n, op, r, "body", true)
		}
		if r.Err != "" {
			return fail([]string{"C01", "C03"}, "Incr on %s failed with %s", d.State(), r.Err)
		}
		if r.Val != op.Def {
			return fail([]string{"C03", "C01"}, "Incr on %s returned %d, expected the default %d", d.State(), r.Val, op.Def)
		}
		n := Doc{HasBody: true, Body: strconv.FormatUint(op.Def, 10), JSON: 1, Exp: exp}
		return mutated(d, n, op, r, ifelseS(d.Exists, "resurrect", "body"), true)

	case "Touch", "GetAndTouchRaw":
		if !d.HasBody {
			if r.Err != EMissing {
				tags := []string{"C01", "C14"}
				if d.Exists {
					tags = append(tags, "C05")
				}
				return fail(tags, "%s on %s returned %s, expected missing", op.Kind, d.State(), orOK(r.Err))
			}
			return unchanged(d, "touch")
		}
		if r.Err != "" {
			return fail([]string{"C01", "C14"}, "%s of a live document failed with %s", op.Kind, r.Err)
		}
		if op.Kind == "GetAndTouchRaw" && (!r.HasBody || string(r.Body) != d.Body) {
			return fail([]string{"C01"}, "GetAndTouchRaw returned body %q, expected %q", r.Body, d.Body)
		}
		n := d.clone()
		n.Exp = exp
		n.Rev = d.Rev + 1
		// whether a touch changes the CAS is unspecified: the returned CAS decides
		if d.Cas != 0 && r.Cas != d.Cas && r.Cas <= d.Cas {
			return fail([]string{"C01", "C04"}, "%s returned CAS %d, neither the current %d nor a newer one", op.Kind, r.Cas, d.Cas)
		}
		n.Cas = r.Cas
		return StepOut{OK: true, Next: n, Mutated: true, Family: "touch"}

	// ------------------------------------------------------------------ xattr family
	case "SetXattrs", "UpdateXattrs", "RemoveXattrs", "DeleteSubDocPaths", "WriteWithXattrs",
		"WriteTombstoneWithXattrs", "WriteResurrectionWithXattrs":
		return stepXattrWrite(d, op, r, env, body, exp, casCurrent, tagIns)
	case "WriteUpdateWithXattrs":
		return stepWUWX(d, op, r, env)

	// ------------------------------------------------------------------ with-meta
	case "SetWithMeta", "DeleteWithMeta":
		okCas := (d.Exists && op.CasArg == d.Cas) || (!d.Exists && op.CasArg == 0)
		if !okCas {
			if !in(r.Err, ECas, EMissing, EExists) {
				return fail([]string{"C02"}, "%s with old CAS %d (current %d) returned %s", op.Kind, op.CasArg, d.Cas, orOK(r.Err))
			}
			return unchanged(d, "meta")
		}
		if r.Err != "" {
			return fail([]string{"C02", "C01"}, "%s with the current CAS failed with %s", op.Kind, r.Err)
		}
		n := Doc{Exp: exp, X: map[string]string{}}
		for k, v := range op.Xattrs {
			n.X[k] = v
		}
		if op.Kind == "SetWithMeta" {
			n.HasBody, n.Body = op.Body != nil, body
			n.JSON = 0
			if op.JSON {
				n.JSON = 1
			}
		}
		return mutated(d, n, op, r, "meta", true)

	// ------------------------------------------------------------------ subdoc
	case "WriteSubDoc", "SubdocInsert":
		return stepSubdocWrite(d, op, r, env)
	}
	panic("model: unknown op " + op.Kind)
}

func expectOther(op *Op) bool {
	// operations whose argument errors surface as plain errors
	switch op.Kind {
	case "Incr", "WriteWithXattrs", "WriteTombstoneWithXattrs", "WriteResurrectionWithXattrs", "SetXattrs",
		"UpdateXattrs", "RemoveXattrs", "WriteUpdateWithXattrs", "DeleteSubDocPaths", "DeleteWithXattrs",
		"WriteSubDoc", "SubdocInsert", "GetSubDocRaw", "Update":
		return true
	}
	return false
}

func orOK(e string) string {
	if e == "" {
		return "success"
	}
	return e
}

func ifelseS(c bool, a, b string) string {
	if c {
		return a
	}
	return b
}

// ---------------------------------------------------------------------------------------

func stepWriteCas(d Doc, op *Op, r *Res, env Env, body string, exp uint32, casCurrent bool, tagIns []string) StepOut {
	opt := sgbucket.WriteOptions(op.WOpt)
	raw := opt&(sgbucket.Raw|sgbucket.Append) != 0
	if env.MaxDoc > 0 && len(body) > env.MaxDoc {
		if r.Err != ETooBig {
			return fail([]string{"C01"}, "WriteCas of an oversize body returned %s", orOK(r.Err))
		}
		return unchanged(d, "body")
	}
	live := func() Doc {
		n := Doc{HasBody: true, Body: body, JSON: 1, Exp: exp}
		if raw {
			n.JSON = 0
		}
		return n
	}
	switch {
	case opt&sgbucket.Append != 0:
		tags := []string{"C02", "C01"}
		if !d.Exists {
			if r.Err != EMissing {
				return fail(tags, "Append to an absent key returned %s", orOK(r.Err))
			}
			return unchanged(d, "body")
		}
		if !d.HasBody {
			// a tombstone has nothing to append to
			if r.Err == "" {
				return fail([]string{"C05", "C01"}, "Append to a tombstone reported success")
			}
			return unchanged(d, "body")
		}
		if op.CasArg == 0 {
			// CAS 0 with Append: unspecified (no check, or mismatch)
			if r.Err != "" {
				if !in(r.Err, ECas, EExists) {
					return fail(tags, "Append with CAS 0 returned %s", r.Err)
				}
				return unchanged(d, "body")
			}
		} else if !casCurrent {
			if !in(r.Err, ECas, EExists, EMissing) {
				return fail(tags, "Append with a CAS that is not current returned %s", orOK(r.Err))
			}
			return unchanged(d, "body")
		} else if r.Err == ETooBig && env.MaxDoc > 0 && len(d.Body)+len(body) > env.MaxDoc {
			// whether the limit applies to the appended piece or to the whole body is not specified; a
			// refused append must leave the document as it was
			return unchanged(d, "body")
		} else if r.Err != "" {
			return fail(tags, "Append with the current CAS failed with %s", r.Err)
		}
		n := d.clone()
		n.Body, n.JSON, n.Exp = d.Body+body, 0, exp
		return mutated(d, n, op, r, "body", true)

	case opt&sgbucket.AddOnly != 0:
		if d.HasBody {
			if !in(r.Err, EExists, ECas) {
				return fail(tagIns, "WriteCas(AddOnly) on a live document returned %s", orOK(r.Err))
			}
			return unchanged(d, "body")
		}
		if !d.Exists && op.CasArg != 0 {
			// unspecified: insert, or refuse because there is nothing carrying that CAS
			if r.Err != "" {
				if !in(r.Err, EMissing, ECas) {
					return fail(tagIns, "WriteCas(AddOnly, cas!=0) on an absent key returned %s", r.Err)
				}
				return unchanged(d, "body")
			}
		} else if r.Err != "" {
			return fail(tagIns, "WriteCas(AddOnly) on %s failed with %s", d.State(), r.Err)
		}
		return mutated(d, live(), op, r, ifelseS(d.Exists, "resurrect", "body"), true)

	case op.CasArg == 0:
		if d.HasBody {
			if !in(r.Err, ECas, EExists) {
				return fail(append([]string{"C02"}, tagIns...), "WriteCas(cas=0) on a live document returned %s", orOK(r.Err))
			}
			return unchanged(d, "body")
		}
		if r.Err != "" {
			return fail(append([]string{"C02"}, tagIns...), "WriteCas(cas=0) on %s failed with %s", d.State(), r.Err)
		}
		return mutated(d, live(), op, r, ifelseS(d.Exists, "resurrect", "body"), true)

	default:
		tags := []string{"C02"}
		if !d.Exists {
			if !in(r.Err, EMissing, ECas) {
				return fail(tags, "WriteCas(cas=%d) on an absent key returned %s", op.CasArg, orOK(r.Err))
			}
			return unchanged(d, "body")
		}
		if !casCurrent {
			if !in(r.Err, ECas, EMissing, EExists) {
				return fail(tags, "WriteCas with CAS %d (current %d) returned %s", op.CasArg, d.Cas, orOK(r.Err))
			}
			return unchanged(d, "body")
		}
		if r.Err != "" {
			return fail(tags, "WriteCas with the current CAS on %s failed with %s", d.State(), r.Err)
		}
		n := live()
		fam := "resurrect"
		if d.HasBody {
			n.X = d.clone().X
			fam = "body"
		}
		return mutated(d, n, op, r, fam, true)
	}
}

func stepUpdate(d Doc, op *Op, r *Res, env Env) StepOut {
	tags := []string{"C03", "C01"}
	if len(r.Cb) == 0 {
		if r.Err == "" {
			return fail(tags, "Update returned success without invoking its callback")
		}
		return fail(tags, "Update failed with %s before invoking its callback", r.Err)
	}
	last := r.Cb[len(r.Cb)-1]
	act := op.Cb[minInt(len(r.Cb)-1, len(op.Cb)-1)]
	switch act.Act {
	case "err", "retry":
		// "retry" as last action only happens when the guard tripped
		if r.Err != ECallback {
			return fail(tags, "Update whose callback failed returned %s", orOK(r.Err))
		}
		return unchanged(d, "body")
	case "cancel":
		if r.Err != "" || r.Commits != 0 {
			return fail(tags, "cancelled Update returned %s with %d commits", orOK(r.Err), r.Commits)
		}
		return unchanged(d, "body")
	}
	if act.Act == "set" && act.Body == nil && !d.HasBody {
		// a callback that only returns an expiry, shown "no document": what Update then does is not
		// specified (rosmar: key-missing error on an absent key, a fresh tombstone over a tombstone)
		if r.Err != "" {
			if !in(r.Err, EMissing, ECas) {
				return fail(tags, "Update(expiry only) on %s failed with %s", d.State(), r.Err)
			}
			return unchanged(d, "delete")
		}
		if r.Commits > 0 && d.Exists {
			return mutated(d, tombstoneOf(d), op, r, "delete", true)
		}
		if r.Commits > 0 {
			return mutated(d, Doc{}, op, r, "delete", true)
		}
		return unchanged(d, "delete")
	}
	if r.Err != "" {
		if act.Act == "delete" && !d.HasBody && in(r.Err, EMissing) {
			return unchanged(d, "delete") // deleting what has no body: unspecified
		}
		if act.Act == "set" && act.Body != nil && env.MaxDoc > 0 && len(*act.Body) > env.MaxDoc && r.Err == ETooBig {
			return unchanged(d, "body")
		}
		if act.Act == "set" && act.Body == nil && env.MaxDoc > 0 && len(d.Body) > env.MaxDoc && r.Err == ETooBig {
			// only the expiry changes, but the body it is written back with has outgrown the limit
			// (appends are not checked against the whole body): refused, nothing changes
			return unchanged(d, "body")
		}
		return fail(tags, "Update(%s) on %s failed with %s", act.Act, d.State(), r.Err)
	}
	// the result must be stored on exactly the version the final callback was shown
	if last.HasBody != d.HasBody || (d.HasBody && string(last.Body) != d.Body) {
		return fail(tags, "Update stored its result although its callback was shown %q, not the current body %q", last.Body, d.Body)
	}
	exp := absExp(op)
	if act.Exp != nil {
		exp = op.Now + *act.Exp
	}
	switch act.Act {
	case "set":
		n := Doc{HasBody: true, JSON: 1, Exp: exp}
		fam := "body"
		if act.Body != nil {
			n.Body = *act.Body
		} else {
			// body nil with an expiry: keeps the body shown, as JSON or raw as it was
			n.Body, n.HasBody, n.JSON = d.Body, d.HasBody, d.JSON
		}
		if d.HasBody {
			n.X = d.clone().X
		} else if d.Exists {
			fam = "resurrect"
		}
		if !n.HasBody {
			return unchanged(d, "body")
		}
		return mutated(d, n, op, r, fam, true)
	case "delete":
		if !d.HasBody {
			if !d.Exists {
				// unspecified whether deleting nothing creates a tombstone; if it reports success
				// the key must still read as missing (checked by read-back)
				n := Doc{}
				if r.Commits > 0 {
					return mutated(d, n, op, r, "delete", true)
				}
				return unchanged(d, "delete")
			}
			return mutated(d, tombstoneOf(d), op, r, "delete", true)
		}
		return mutated(d, tombstoneOf(d), op, r, "delete", true)
	}
	return fail(tags, "model: unknown callback action %q", act.Act)
}

// ---------------------------------------------------------------------------------------
// xattr reads
// ---------------------------------------------------------------------------------------

func virtualDocument(d Doc) string {
	var body []byte
	if d.HasBody {
		body = []byte(d.Body)
	}
	return fmt.Sprintf(`{"value_crc32c":%q,"revid":"%d"}`, crc32cStr(body), d.Rev)
}

func stepXattrRead(d Doc, op *Op, r *Res) StepOut {
	want := map[string]string{}
	for _, n := range op.XNames {
		switch n {
		case "$document":
			if d.Exists {
				want[n] = virtualDocument(d)
			}
		case "$document.revid":
			if d.Exists {
				want[n] = fmt.Sprintf(`"%d"`, d.Rev)
			}
		default:
			if v, ok := d.X[n]; ok {
				want[n] = v
			}
		}
	}
	tags := []string{"C07", "C01"}
	if !d.Exists {
		if r.Err != EMissing {
			return fail([]string{"C01"}, "%s on an absent key returned %s", op.Kind, orOK(r.Err))
		}
		return unchanged(d, "read")
	}
	if op.Kind == "GetXattrs" {
		if len(want) == 0 {
			if !in(r.Err, EXattrMissing, EMissing) {
				return fail(tags, "GetXattrs%v on %s with none of them present returned %s %s", op.XNames, d.State(), orOK(r.Err), sortedMap(r.Xattrs))
			}
			return unchanged(d, "read")
		}
	} else {
		if !d.HasBody && len(want) == 0 {
			if r.Err != EMissing {
				return fail([]string{"C05", "C01"}, "GetWithXattrs on a tombstone without the named xattrs returned %s", orOK(r.Err))
			}
			return unchanged(d, "read")
		}
	}
	if r.Err != "" {
		return fail(tags, "%s%v on %s failed with %s", op.Kind, op.XNames, d.State(), r.Err)
	}
	if op.Kind == "GetWithXattrs" {
		if r.HasBody != d.HasBody || (d.HasBody && string(r.Body) != d.Body) {
			t := []string{"C01"}
			if !d.HasBody || !r.HasBody {
				t = append(t, "C05")
			}
			return fail(t, "GetWithXattrs returned body %q (has=%v), expected %q (has=%v)", r.Body, r.HasBody, d.Body, d.HasBody)
		}
	}
	if d.Cas != 0 && r.Cas != d.Cas {
		return fail([]string{"C01"}, "%s returned CAS %d, expected %d", op.Kind, r.Cas, d.Cas)
	}
	for k, v := range want {
		got, ok := r.Xattrs[k]
		if !ok {
			return fail(tagsForXattr(k), "%s: xattr %s missing, expected %s", op.Kind, k, v)
		}
		if !jsonEqual(got, v) {
			return fail(tagsForXattr(k), "%s: xattr %s = %s, expected %s", op.Kind, k, got, v)
		}
	}
	for k, v := range r.Xattrs {
		if _, ok := want[k]; !ok {
			return fail(tagsForXattr(k), "%s: unexpected xattr %s = %s", op.Kind, k, v)
		}
	}
	return unchanged(d, "read")
}

func tagsForXattr(name string) []string {
	if strings.HasPrefix(name, "$document") {
		return []string{"C17"}
	}
	return []string{"C07", "C05"}
}

func jsonEqual(a, b string) bool {
	if a == b {
		return true
	}
	var x, y any
	if json.Unmarshal([]byte(a), &x) != nil || json.Unmarshal([]byte(b), &y) != nil {
		return false
	}
	ca, _ := json.Marshal(x)
	cb, _ := json.Marshal(y)
	return string(ca) == string(cb)
}

// ---------------------------------------------------------------------------------------
// xattr writes
// ---------------------------------------------------------------------------------------

func validXattrName(n string) bool { return !strings.ContainsAny(n, "$.[]") }

// applyMacros expands CAS / crc32c macros into the xattr values being set.
func applyMacros(set map[string]string, macros []Macro, cas uint64, body []byte) (map[string]string, bool) {
	if len(macros) == 0 {
		return set, true
	}
	out := map[string]string{}
	for k, v := range set {
		out[k] = v
	}
	for _, m := range macros {
		parts := strings.Split(m.Path, ".")
		v, ok := out[parts[0]]
		if !ok {
			continue
		}
		var obj map[string]any
		if json.Unmarshal([]byte(v), &obj) != nil || obj == nil {
			return nil, false
		}
		cur := obj
		for _, p := range parts[1 : len(parts)-1] {
			next, ok := cur[p].(map[string]any)
			if !ok {
				if _, there := cur[p]; there {
					return nil, false // the parent exists and is not an object
				}
				// the parent does not exist: a call that succeeds must have created it (a call that
				// refuses the path instead is handled by the caller: macroMissingParent)
				next = map[string]any{}
				cur[p] = next
			}
			cur = next
		}
		val := casMacro(cas)
		if m.Type == 1 {
			val = crc32cStr(body)
		}
		cur[parts[len(parts)-1]] = val
		b, _ := json.Marshal(obj)
		out[parts[0]] = string(b)
	}
	return out, true
}

// macroMissingParent: does some macro of the call address a path whose parent is absent from the
// xattr value the call stores?
func macroMissingParent(op *Op, n Doc) bool {
	for _, m := range op.Macros {
		parts := strings.Split(m.Path, ".")
		if len(parts) < 3 {
			continue
		}
		var cur map[string]any
		if json.Unmarshal([]byte(n.X[parts[0]]), &cur) != nil || cur == nil {
			continue
		}
		for _, p := range parts[1 : len(parts)-1] {
			next, ok := cur[p].(map[string]any)
			if !ok {
				if _, there := cur[p]; !there {
					return true
				}
				break
			}
			cur = next
		}
	}
	return false
}

func xattrSize(d Doc) int { return len(d.Body) + len(xattrBlob(d.X)) }

func stepXattrWrite(d Doc, op *Op, r *Res, env Env, body string, exp uint32, casCurrent bool, tagIns []string) StepOut {
	t07 := []string{"C07"}
	t02 := []string{"C02", "C07"}
	// argument validation common to the family
	for k := range op.Xattrs {
		if !validXattrName(k) {
			if r.Err == "" {
				return fail(t07, "%s accepted the unsupported xattr name %q", op.Kind, k)
			}
			return unchanged(d, "xattr")
		}
	}
	casOK := func() bool { // expected CAS current, 0 meaning "no such document"
		if op.CasArg == 0 {
			return !d.Exists
		}
		return casCurrent
	}
	failCas := func() StepOut {
		if !in(r.Err, ECas, EMissing, EExists, EArg, EPathNotFound) {
			return fail(t02, "%s with CAS %d (current %d, %s) returned %s", op.Kind, op.CasArg, d.Cas, d.State(), orOK(r.Err))
		}
		return unchanged(d, "xattr")
	}
	sizeCheck := func(n Doc) (StepOut, bool) {
		if env.MaxDoc <= 0 {
			return StepOut{}, false
		}
		sz := xattrSize(n)
		slack := 24 + 48*len(op.Macros) // expanded macros and re-marshalling change the stored size a little
		if r.Err == ETooBig {
			if sz > env.MaxDoc-slack {
				return unchanged(d, "xattr"), true
			}
			tags := t07
			if !d.HasBody && n.HasBody {
				// an insert-style write on a key without a body was refused although the new document fits
				tags = append(append([]string{}, t07...), tagIns...)
			}
			return fail(tags, "%s reported too-big for %d bytes (limit %d)", op.Kind, sz, env.MaxDoc), true
		}
		// (only a call that grows the document is expected to be refused: body-only writes check the
		// body alone, so a document may already be above the combined limit before this call)
		if sz > env.MaxDoc+slack && r.Err == "" && sz > xattrSize(d) {
			return fail(t07, "%s stored %d bytes above the limit %d", op.Kind, sz, env.MaxDoc), true
		}
		return StepOut{}, false
	}
	finish := func(n Doc, fam string) StepOut {
		if out, done := sizeCheck(n); done {
			return out
		}
		if r.Err != "" && macroMissingParent(op, n) {
			// a macro path whose parent object does not exist in the xattr as written: whether that is
			// refused or the parent created is unspecified; a refusal must change nothing
			return unchanged(d, "xattr")
		}
		if r.Err != "" {
			return fail(t07, "%s on %s failed with %s", op.Kind, d.State(), r.Err)
		}
		// macro expansion needs the new CAS
		cas := newCasOf(r)
		if len(op.Macros) > 0 {
			var bodyB []byte
			if n.HasBody {
				bodyB = []byte(n.Body)
			}
			set := map[string]string{}
			for k := range op.Xattrs {
				set[k] = n.X[k]
			}
			exp, ok := applyMacros(set, op.Macros, cas, bodyB)
			if ok {
				for k, v := range exp {
					n.X[k] = v
				}
			}
		}
		return mutated(d, n, op, r, fam, true)
	}
	setAll := func(n *Doc) {
		if n.X == nil {
			n.X = map[string]string{}
		}
		for k, v := range op.Xattrs {
			n.X[k] = v
		}
	}
	// With macro expansion requested, an xattr value that is not a JSON object cannot be
	// expanded into; whether the call then fails (rosmar: for every xattr of the call) or
	// ignores the macro is unspecified: either, and a failure must change nothing.
	macroEither := func() bool {
		if len(op.Macros) == 0 {
			return false
		}
		for _, v := range op.Xattrs {
			if !strings.HasPrefix(v, "{") {
				return true
			}
		}
		return false
	}

	switch op.Kind {
	case "SetXattrs":
		// no CAS; XDel entries are nil values = delete
		for _, k := range op.XDel {
			if !validXattrName(k) {
				if r.Err == "" {
					return fail(t07, "SetXattrs accepted the unsupported xattr name %q", k)
				}
				return unchanged(d, "xattr")
			}
		}
		for _, k := range op.XDel {
			if _, ok := d.X[k]; !ok {
				// deleting an xattr that is not there: error (path not found), nothing changes
				if r.Err == "" {
					// tolerated as a no-op delete? interface is silent: accept success if state matches
					break
				}
				return unchanged(d, "xattr")
			}
		}
		if !d.Exists {
			// unspecified whether xattrs can be set on a key that was never written
			if r.Err != "" {
				return unchanged(d, "xattr")
			}
		}
		n := d.clone()
		setAll(&n)
		for _, k := range op.XDel {
			delete(n.X, k)
		}
		return finish(n, "xattr")

	case "UpdateXattrs":
		if !casOK() {
			return failCas()
		}
		if macroEither() && r.Err != "" {
			return unchanged(d, "xattr")
		}
		n := d.clone()
		setAll(&n)
		if !op.Preserve {
			n.Exp = exp
		}
		if !n.HasBody {
			n.Exp = expOfTombstone(n.Exp, op, exp)
		}
		return finish(n, "xattr")

	case "RemoveXattrs":
		if !d.Exists {
			if r.Err == "" {
				return fail(t02, "RemoveXattrs on an absent key succeeded")
			}
			return unchanged(d, "xattr")
		}
		if !casCurrent {
			return failCas()
		}
		for _, k := range op.XDel {
			if _, ok := d.X[k]; !ok || !validXattrName(k) {
				if r.Err == "" {
					return fail(t07, "RemoveXattrs of the absent xattr %q succeeded", k)
				}
				return unchanged(d, "xattr")
			}
		}
		n := d.clone()
		for _, k := range op.XDel {
			delete(n.X, k)
		}
		return finish(n, "xattr")

	case "DeleteSubDocPaths":
		if !d.Exists {
			if r.Err != EMissing {
				return fail(t07, "DeleteSubDocPaths on an absent key returned %s", orOK(r.Err))
			}
			return unchanged(d, "xattr")
		}
		for _, k := range op.XDel {
			if !validXattrName(k) {
				if r.Err == "" && len(d.X) > 0 {
					return fail(t07, "DeleteSubDocPaths accepted the unsupported name %q", k)
				}
				if r.Err != "" {
					return unchanged(d, "xattr")
				}
			}
		}
		n := d.clone()
		for _, k := range op.XDel {
			delete(n.X, k)
		}
		return finish(n, "xattr")

	case "WriteWithXattrs":
		// argument errors first
		if (op.CasArg == 0 && !op.XDelNil && op.XDel != nil) || (len(body) == 0 && len(op.Xattrs) == 0) || overlap(op.Xattrs, op.XDel) {
			if r.Err == "" {
				return fail(t07, "WriteWithXattrs accepted invalid arguments")
			}
			return unchanged(d, "xattr")
		}
		if op.CasArg == 0 {
			if d.Exists {
				if !in(r.Err, ECas, EExists) {
					return fail(append([]string{"C02"}, tagIns...), "WriteWithXattrs(cas=0) on %s returned %s", d.State(), orOK(r.Err))
				}
				return unchanged(d, "xattr")
			}
		} else {
			if !d.Exists {
				return failCas()
			}
			if !d.HasBody && op.Body != nil {
				// a body cannot be CAS-written onto a tombstone: key-exists (pinned), whatever the CAS
				if !in(r.Err, EExists, ECas) {
					return fail(t02, "WriteWithXattrs(body, cas!=0) on a tombstone returned %s", orOK(r.Err))
				}
				return unchanged(d, "xattr")
			}
			if !casCurrent {
				return failCas()
			}
		}
		for _, k := range op.XDel {
			if _, ok := d.X[k]; !ok {
				if r.Err == "" {
					return fail(t07, "WriteWithXattrs deleting the absent xattr %q succeeded", k)
				}
				return unchanged(d, "xattr")
			}
		}
		if macroEither() && r.Err != "" {
			return unchanged(d, "xattr")
		}
		n := d.clone()
		if op.Body != nil {
			n.HasBody, n.Body, n.JSON = true, body, 1
		}
		setAll(&n)
		for _, k := range op.XDel {
			delete(n.X, k)
		}
		if !op.Preserve {
			n.Exp = exp
		}
		if !n.HasBody {
			n.Exp = expOfTombstone(n.Exp, op, exp)
		}
		return finish(n, "xattr")

	case "WriteTombstoneWithXattrs":
		if len(op.Xattrs) == 0 || (op.CasArg == 0 && !op.XDelNil && op.XDel != nil) || overlap(op.Xattrs, op.XDel) {
			if r.Err == "" {
				return fail(t07, "WriteTombstoneWithXattrs accepted invalid arguments")
			}
			return unchanged(d, "xattr")
		}
		if !d.Exists {
			if op.DelBody || op.CasArg != 0 {
				if !in(r.Err, EMissing, ECas) {
					return fail(t02, "WriteTombstoneWithXattrs(cas=%d,deleteBody=%v) on an absent key returned %s", op.CasArg, op.DelBody, orOK(r.Err))
				}
				return unchanged(d, "xattr")
			}
		} else {
			if !casCurrent {
				return failCas()
			}
			if !d.HasBody && op.DelBody {
				if r.Err == "" {
					return fail(t07, "WriteTombstoneWithXattrs(deleteBody) on a tombstone succeeded")
				}
				return unchanged(d, "xattr")
			}
		}
		for _, k := range op.XDel {
			if _, ok := d.X[k]; !ok || !isSystemXattr(k) {
				// deleting an xattr that is absent (or a user xattr that the tombstoning itself drops)
				if _, present := d.X[k]; !present {
					if r.Err == "" {
						return fail(t07, "WriteTombstoneWithXattrs deleting the absent xattr %q succeeded", k)
					}
					return unchanged(d, "xattr")
				}
				if r.Err != "" {
					return unchanged(d, "xattr") // user xattr named for deletion while tombstoning: either
				}
			}
		}
		if macroEither() && r.Err != "" {
			return unchanged(d, "xattr")
		}
		n := tombstoneOf(d)
		setAll(&n)
		for _, k := range op.XDel {
			delete(n.X, k)
		}
		n.Exp = expOfTombstone(exp, op, exp)
		return finish(n, "delete")

	case "WriteResurrectionWithXattrs":
		if op.Body == nil {
			if r.Err == "" {
				return fail(t07, "WriteResurrectionWithXattrs without a body succeeded")
			}
			return unchanged(d, "xattr")
		}
		if d.HasBody {
			if !in(r.Err, EExists, ECas) {
				return fail(tagIns, "WriteResurrectionWithXattrs on a live document returned %s", orOK(r.Err))
			}
			return unchanged(d, "xattr")
		}
		if macroEither() && r.Err != "" {
			return unchanged(d, "xattr")
		}
		n := Doc{HasBody: true, Body: body, JSON: 1, Exp: exp, X: map[string]string{}}
		if op.Preserve {
			n.Exp = d.Exp
		}
		setAll(&n)
		out := finish(n, "resurrect")
		if !out.OK && r.Err != "" {
			out.Tags = append(out.Tags, tagIns...)
		}
		return out
	}
	panic("model: xattr op " + op.Kind)
}

// expOfTombstone: the expiry a tombstone carries after an xattr write is whatever the call
// set; kept as a function so the one unspecified corner is in one place.
func expOfTombstone(cur uint32, op *Op, exp uint32) uint32 { return cur }

func overlap(set map[string]string, del []string) bool {
	for _, k := range del {
		if _, ok := set[k]; ok {
			return true
		}
	}
	return false
}

func stepWUWX(d Doc, op *Op, r *Res, env Env) StepOut {
	tags := []string{"C03", "C07"}
	if len(r.Cb) == 0 {
		return fail(tags, "WriteUpdateWithXattrs returned %s without invoking its callback", orOK(r.Err))
	}
	last := r.Cb[len(r.Cb)-1]
	act := op.Cb[minInt(len(r.Cb)-1, len(op.Cb)-1)]
	if act.Act == "err" || act.Act == "retry" {
		if r.Err != ECallback {
			return fail(tags, "WriteUpdateWithXattrs whose callback failed returned %s", orOK(r.Err))
		}
		return unchanged(d, "xattr")
	}
	// Translate into the dispatched call and let the family model decide.
	sub := *op
	sub.Xattrs, sub.XDel, sub.Macros = act.Xattrs, act.XDel, append(append([]Macro(nil), op.Macros...), act.Macros...)
	sub.XDelNil = act.XDel == nil
	sub.Body = act.Body
	sub.CasArg = last.Cas
	sub.ExpKind, sub.ExpVal = 0, 0
	if act.Exp != nil {
		sub.ExpKind, sub.ExpVal = 2, *act.Exp
	}
	sub.Preserve = op.Preserve
	switch {
	case act.Act == "tomb":
		sub.Kind = "WriteTombstoneWithXattrs"
		sub.DelBody = last.HasBody
	case !last.HasBody && last.Cas != 0 && d.Exists && !d.HasBody:
		sub.Kind = "WriteResurrectionWithXattrs"
		if len(act.XDel) > 0 {
			if r.Err == "" {
				return fail(tags, "WriteUpdateWithXattrs deleted xattrs while resurrecting a tombstone")
			}
			return unchanged(d, "xattr")
		}
	default:
		sub.Kind = "WriteWithXattrs"
	}
	if r.Err == "" && !(env.AllowUncheckedResurrection && sub.Kind == "WriteResurrectionWithXattrs") {
		// success: must be on top of exactly the version shown
		if last.HasBody != d.HasBody || (d.HasBody && string(last.Body) != d.Body) || (d.Exists && d.Cas != 0 && last.Cas != d.Cas) || (!d.Exists && last.Cas != 0) {
			return fail([]string{"C03"}, "WriteUpdateWithXattrs stored its result although its callback was shown body=%q cas=%d, not the current %s", last.Body, last.Cas, d)
		}
	}
	out := Step(d, &sub, r, env)
	if !out.OK {
		out.Why = "WriteUpdateWithXattrs→" + out.Why
	}
	return out
}

// ---------------------------------------------------------------------------------------
// sub-document operations
// ---------------------------------------------------------------------------------------

func jsonValue(s string) any {
	var v any
	_ = json.Unmarshal([]byte(s), &v)
	return v
}

func parsePath(p string) ([]string, bool) {
	if p == "" || strings.ContainsAny(p, "[]\\`") {
		return nil, false
	}
	return strings.Split(p, "."), true
}

func stepSubdocRead(d Doc, op *Op, r *Res) StepOut {
	t := []string{"C18"}
	path, ok := parsePath(op.Path)
	if !ok {
		if r.Err == "" {
			return fail(t, "GetSubDocRaw accepted path %q", op.Path)
		}
		return unchanged(d, "read")
	}
	if !d.HasBody {
		if r.Err != EMissing {
			return fail(t, "GetSubDocRaw on %s returned %s", d.State(), orOK(r.Err))
		}
		return unchanged(d, "read")
	}
	var doc any
	if json.Unmarshal([]byte(d.Body), &doc) != nil {
		if r.Err == "" {
			return fail(t, "GetSubDocRaw on a non-JSON body succeeded")
		}
		return unchanged(d, "read")
	}
	if _, isObj := doc.(map[string]any); !isObj {
		if r.Err == "" {
			return fail(t, "GetSubDocRaw on a non-object body succeeded")
		}
		return unchanged(d, "read")
	}
	cur := doc
	for _, p := range path {
		m, isMap := cur.(map[string]any)
		if !isMap {
			if r.Err != EPathMismatch {
				return fail(t, "GetSubDocRaw through a non-object returned %s", orOK(r.Err))
			}
			return unchanged(d, "read")
		}
		nxt, present := m[p]
		if !present || nxt == nil {
			if r.Err != EPathNotFound {
				return fail(t, "GetSubDocRaw of an absent path returned %s", orOK(r.Err))
			}
			return unchanged(d, "read")
		}
		cur = nxt
	}
	if r.Err != "" {
		return fail(t, "GetSubDocRaw(%s) failed with %s", op.Path, r.Err)
	}
	want, _ := json.Marshal(cur)
	if !jsonEqual(string(r.Body), string(want)) {
		return fail(t, "GetSubDocRaw(%s) returned %s, expected %s", op.Path, r.Body, want)
	}
	if d.Cas != 0 && r.Cas != d.Cas {
		return fail(t, "GetSubDocRaw returned CAS %d, expected %d", r.Cas, d.Cas)
	}
	return unchanged(d, "read")
}

func stepSubdocWrite(d Doc, op *Op, r *Res, env Env) StepOut {
	t := []string{"C18"}
	t02 := []string{"C18", "C02"}
	insert := op.Kind == "SubdocInsert"
	path, ok := parsePath(op.Path)
	if !ok {
		if r.Err == "" {
			return fail(t, "%s accepted path %q", op.Kind, op.Path)
		}
		return unchanged(d, "subdoc")
	}
	if !d.HasBody {
		if insert {
			// missing; or, when a CAS was supplied that is not this tombstone's, a CAS mismatch
			if r.Err != EMissing && !(r.Err == ECas && op.CasArg != 0 && !(d.Exists && op.CasArg == d.Cas)) {
				return fail(t, "SubdocInsert on %s returned %s", d.State(), orOK(r.Err))
			}
			return unchanged(d, "subdoc")
		}
		if op.CasArg != 0 && !(d.Exists && op.CasArg == d.Cas) {
			if !in(r.Err, ECas, EMissing) {
				return fail(t02, "WriteSubDoc(cas=%d) on %s returned %s", op.CasArg, d.State(), orOK(r.Err))
			}
			return unchanged(d, "subdoc")
		}
		// (with the tombstone's own current CAS the write may go ahead on an empty document)
	} else if op.CasArg != 0 && !(op.CasArg == d.Cas) {
		// (a body that is not a JSON object may be rejected before the CAS is looked at)
		if !in(r.Err, ECas) && !(r.Err != "" && !isJSONObject(d.Body)) {
			return fail(t02, "%s with CAS %d (current %d) returned %s", op.Kind, op.CasArg, d.Cas, orOK(r.Err))
		}
		return unchanged(d, "subdoc")
	}
	var doc map[string]any
	if d.HasBody {
		var anyDoc any
		if json.Unmarshal([]byte(d.Body), &anyDoc) != nil {
			if r.Err == "" {
				return fail(t, "%s on a non-JSON body succeeded", op.Kind)
			}
			return unchanged(d, "subdoc")
		}
		m, isObj := anyDoc.(map[string]any)
		if !isObj {
			// non-object bodies: unspecified, but a failure must change nothing
			if r.Err != "" {
				return unchanged(d, "subdoc")
			}
			return fail(t, "%s on a non-object body succeeded", op.Kind)
		}
		doc = m
	} else {
		doc = map[string]any{}
	}
	// walk to the parent
	var cur any = doc
	for _, p := range path[:len(path)-1] {
		m, isMap := cur.(map[string]any)
		if !isMap {
			if r.Err != EPathMismatch {
				return fail(t, "%s through a non-object returned %s", op.Kind, orOK(r.Err))
			}
			return unchanged(d, "subdoc")
		}
		nxt, present := m[p]
		if !present || nxt == nil {
			if r.Err != EPathNotFound {
				return fail(t, "%s with an absent parent returned %s", op.Kind, orOK(r.Err))
			}
			return unchanged(d, "subdoc")
		}
		cur = nxt
	}
	parent, isMap := cur.(map[string]any)
	if !isMap {
		if r.Err != EPathMismatch {
			return fail(t, "%s whose parent is not an object returned %s", op.Kind, orOK(r.Err))
		}
		return unchanged(d, "subdoc")
	}
	leaf := path[len(path)-1]
	if insert {
		if v, present := parent[leaf]; present && v != nil {
			if r.Err != EPathExists {
				return fail(t, "SubdocInsert of an existing property returned %s", orOK(r.Err))
			}
			return unchanged(d, "subdoc")
		}
	}
	var val any
	hasVal := false
	if op.Body != nil && len(*op.Body) > 0 {
		if json.Unmarshal([]byte(*op.Body), &val) != nil {
			if r.Err == "" {
				return fail(t, "%s accepted invalid JSON", op.Kind)
			}
			return unchanged(d, "subdoc")
		}
		hasVal = val != nil
	}
	if hasVal {
		parent[leaf] = val
	} else {
		delete(parent, leaf)
	}
	nb, _ := json.Marshal(doc)
	if env.MaxDoc > 0 && len(nb) > env.MaxDoc {
		if r.Err == ETooBig {
			return unchanged(d, "subdoc")
		}
	}
	if r.Err != "" {
		return fail(t, "%s(%s) on %s failed with %s", op.Kind, op.Path, d.State(), r.Err)
	}
	// whether a sub-document write keeps or clears the expiry is not specified
	n := Doc{HasBody: true, Body: string(nb), JSON: 1, Exp: 0, ExpAny: d.HasBody && d.Exp != 0}
	fam := "resurrect"
	if d.HasBody {
		n.X = d.clone().X
		fam = "subdoc"
	}
	return mutated(d, n, op, r, fam, true)
}

// canonJSON re-marshals a JSON text in Go's canonical form (sorted keys, compact).
func canonJSON(s string) string {
	var v any
	if json.Unmarshal([]byte(s), &v) != nil {
		return s
	}
	b, _ := json.Marshal(v)
	return string(b)
}

func sortedKeys(m map[string]string) []string {
	ks := make([]string, 0, len(m))
	for k := range m {
		ks = append(ks, k)
	}
	sort.Strings(ks)
	return ks
}

func isJSONObject(body string) bool {
	var v any
	if json.Unmarshal([]byte(body), &v) != nil {
		return false
	}
	_, ok := v.(map[string]any)
	return ok
}
