/* Pass-through SQLite VFS with a deterministic fault layer. It wraps the platform default VFS and
   is registered as the new default, so every byte rosmar persists goes through it. */
#include "sqlite3-binding.h"
#include "shim.h"
#include <string.h>
#include <stdlib.h>
#include <signal.h>
#include <unistd.h>

typedef struct ShimFile {
  sqlite3_file base;
  sqlite3_file *real;
  char cls; /* 'd' main db, 'w' wal, 'j' journal, 'o' other */
} ShimFile;

static sqlite3_vfs *g_real = 0;
static sqlite3_vfs g_shim;
static sqlite3_io_methods g_io;

static int64_t g_ord = 0, g_lock_ord = 0;
static int64_t g_freeze_at = -1, g_kill_at = -1;
static int g_torn = 0, g_frozen = 0;
#define MAXF 16
static int64_t g_fault_at[MAXF];
static int g_fault_kind[MAXF];
static int g_nfault = 0;
static int64_t g_fired[8];
static int64_t g_stat[8];
#define TRACE_MAX 4096
static char g_trace[TRACE_MAX];
static int g_ntrace = 0;

void vshim_reset(void) {
  g_ord = 0; g_lock_ord = 0; g_freeze_at = -1; g_kill_at = -1; g_torn = 0; g_frozen = 0; g_nfault = 0;
  memset(g_fired, 0, sizeof g_fired); memset(g_stat, 0, sizeof g_stat); g_ntrace = 0;
}
void vshim_set_freeze(int64_t at, int torn) { g_freeze_at = at; g_torn = torn; g_frozen = 0; }
void vshim_set_kill(int64_t at) { g_kill_at = at; }
void vshim_clear_faults(void) { g_nfault = 0; }
void vshim_add_fault(int64_t at, int kind) { if (g_nfault < MAXF) { g_fault_at[g_nfault] = at; g_fault_kind[g_nfault] = kind; g_nfault++; } }
int64_t vshim_ordinal(void) { return g_ord; }
int64_t vshim_lock_ordinal(void) { return g_lock_ord; }
int vshim_frozen(void) { return g_frozen; }
int64_t vshim_fired(int kind) { return (kind >= 0 && kind < 8) ? g_fired[kind] : 0; }
int64_t vshim_stat(int what) { return (what >= 0 && what < 8) ? g_stat[what] : 0; }
int vshim_trace(char *buf, int n) { int m = g_ntrace < n ? g_ntrace : n; memcpy(buf, g_trace, m); return m; }

static void trace2(char a, char b) { if (g_ntrace + 2 <= TRACE_MAX) { g_trace[g_ntrace++] = a; g_trace[g_ntrace++] = b; } }

/* Called at the boundary before a mutating op. Returns: 0 go ahead, 1 blocked (frozen),
   2 this op is the freeze point and is a torn write candidate, or a fault kind + 10. */
static int boundary(char kind, char cls) {
  int64_t me = g_ord++;
  int i;
  if (g_frozen) { g_stat[6]++; return 1; }
  trace2(kind, cls);
  if (g_kill_at >= 0 && me == g_kill_at) { raise(SIGKILL); }
  if (g_freeze_at >= 0 && me == g_freeze_at) {
    g_frozen = 1;
    if (g_torn && kind == 'W') return 2;
    g_stat[6]++;
    return 1;
  }
  for (i = 0; i < g_nfault; i++) {
    if (g_fault_at[i] == me && g_fault_kind[i] != VS_BUSY) {
      int k = g_fault_kind[i];
      if ((k == VS_IOERR_WRITE || k == VS_FULL) && kind != 'W') continue;
      if (k == VS_IOERR_FSYNC && kind != 'S') continue;
      g_fault_at[i] = -1;
      g_fired[k]++;
      return 10 + k;
    }
  }
  return 0;
}

static int shimClose(sqlite3_file *f) { ShimFile *p = (ShimFile*)f; int rc = p->real->pMethods ? p->real->pMethods->xClose(p->real) : SQLITE_OK; sqlite3_free(p->real); p->real = 0; return rc; }
static int shimRead(sqlite3_file *f, void *b, int n, sqlite3_int64 o) { ShimFile *p = (ShimFile*)f; return p->real->pMethods->xRead(p->real, b, n, o); }
static int shimWrite(sqlite3_file *f, const void *b, int n, sqlite3_int64 o) {
  ShimFile *p = (ShimFile*)f;
  int r = boundary('W', p->cls);
  if (r == 1) return SQLITE_IOERR_WRITE;
  if (r == 2) { /* torn: half of the write reaches the disk, then the process is dead */
    g_stat[5]++;
    if (n > 1) p->real->pMethods->xWrite(p->real, b, n / 2, o);
    return SQLITE_IOERR_WRITE;
  }
  if (r == 10 + VS_IOERR_WRITE) return SQLITE_IOERR_WRITE;
  if (r == 10 + VS_FULL) return SQLITE_FULL;
  g_stat[0]++;
  return p->real->pMethods->xWrite(p->real, b, n, o);
}
static int shimTruncate(sqlite3_file *f, sqlite3_int64 sz) { ShimFile *p = (ShimFile*)f; int r = boundary('T', p->cls); if (r == 1 || r == 2) return SQLITE_IOERR_TRUNCATE; g_stat[2]++; return p->real->pMethods->xTruncate(p->real, sz); }
static int shimSync(sqlite3_file *f, int fl) { ShimFile *p = (ShimFile*)f; int r = boundary('S', p->cls); if (r == 1 || r == 2) return SQLITE_IOERR_FSYNC; if (r == 10 + VS_IOERR_FSYNC) return SQLITE_IOERR_FSYNC; g_stat[1]++; return p->real->pMethods->xSync(p->real, fl); }
static int shimFileSize(sqlite3_file *f, sqlite3_int64 *sz) { ShimFile *p = (ShimFile*)f; return p->real->pMethods->xFileSize(p->real, sz); }
static int lockFault(void) {
  int64_t me = g_lock_ord++;
  int i;
  for (i = 0; i < g_nfault; i++) if (g_fault_kind[i] == VS_BUSY && g_fault_at[i] == me) { g_fault_at[i] = -1; g_fired[VS_BUSY]++; return 1; }
  return 0;
}
static int shimLock(sqlite3_file *f, int l) { ShimFile *p = (ShimFile*)f; if (l >= SQLITE_LOCK_RESERVED && lockFault()) return SQLITE_BUSY; return p->real->pMethods->xLock(p->real, l); }
static int shimUnlock(sqlite3_file *f, int l) { ShimFile *p = (ShimFile*)f; return p->real->pMethods->xUnlock(p->real, l); }
static int shimCheckReservedLock(sqlite3_file *f, int *r) { ShimFile *p = (ShimFile*)f; return p->real->pMethods->xCheckReservedLock(p->real, r); }
static int shimFileControl(sqlite3_file *f, int op, void *a) { ShimFile *p = (ShimFile*)f; return p->real->pMethods->xFileControl(p->real, op, a); }
static int shimSectorSize(sqlite3_file *f) { ShimFile *p = (ShimFile*)f; return p->real->pMethods->xSectorSize(p->real); }
static int shimDeviceCharacteristics(sqlite3_file *f) { ShimFile *p = (ShimFile*)f; return p->real->pMethods->xDeviceCharacteristics(p->real); }
static int shimShmMap(sqlite3_file *f, int pg, int sz, int ext, void volatile **pp) { ShimFile *p = (ShimFile*)f; return p->real->pMethods->xShmMap(p->real, pg, sz, ext, pp); }
static int shimShmLock(sqlite3_file *f, int o, int n, int fl) { ShimFile *p = (ShimFile*)f; if ((fl & SQLITE_SHM_LOCK) && (fl & SQLITE_SHM_EXCLUSIVE) && lockFault()) return SQLITE_BUSY; return p->real->pMethods->xShmLock(p->real, o, n, fl); }
static void shimShmBarrier(sqlite3_file *f) { ShimFile *p = (ShimFile*)f; p->real->pMethods->xShmBarrier(p->real); }
static int shimShmUnmap(sqlite3_file *f, int d) { ShimFile *p = (ShimFile*)f; if (g_frozen) d = 0; return p->real->pMethods->xShmUnmap(p->real, d); }
static int shimFetch(sqlite3_file *f, sqlite3_int64 o, int n, void **pp) { ShimFile *p = (ShimFile*)f; return p->real->pMethods->xFetch(p->real, o, n, pp); }
static int shimUnfetch(sqlite3_file *f, sqlite3_int64 o, void *q) { ShimFile *p = (ShimFile*)f; return p->real->pMethods->xUnfetch(p->real, o, q); }

static int shimOpen(sqlite3_vfs *v, const char *name, sqlite3_file *f, int flags, int *out) {
  ShimFile *p = (ShimFile*)f;
  int rc;
  p->base.pMethods = 0;
  if (g_frozen && (flags & SQLITE_OPEN_CREATE) && name && access(name, F_OK) != 0) return SQLITE_CANTOPEN; /* a dead process creates nothing */
  p->real = (sqlite3_file*)sqlite3_malloc(g_real->szOsFile);
  if (!p->real) return SQLITE_NOMEM;
  memset(p->real, 0, g_real->szOsFile);
  rc = g_real->xOpen(g_real, name, p->real, flags, out);
  if (rc != SQLITE_OK) { sqlite3_free(p->real); p->real = 0; return rc; }
  p->cls = (flags & SQLITE_OPEN_MAIN_DB) ? 'd' : (flags & SQLITE_OPEN_WAL) ? 'w' : (flags & (SQLITE_OPEN_MAIN_JOURNAL | SQLITE_OPEN_TEMP_JOURNAL | SQLITE_OPEN_SUBJOURNAL | SQLITE_OPEN_SUPER_JOURNAL)) ? 'j' : 'o';
  p->base.pMethods = &g_io;
  return SQLITE_OK;
}
static int shimDelete(sqlite3_vfs *v, const char *name, int sync) { int r = boundary('D', 'o'); if (r == 1 || r == 2) return SQLITE_IOERR_DELETE; g_stat[3]++; return g_real->xDelete(g_real, name, sync); }
static int shimAccess(sqlite3_vfs *v, const char *name, int fl, int *out) { return g_real->xAccess(g_real, name, fl, out); }
static int shimFullPathname(sqlite3_vfs *v, const char *name, int n, char *out) { return g_real->xFullPathname(g_real, name, n, out); }
static void *shimDlOpen(sqlite3_vfs *v, const char *name) { return g_real->xDlOpen(g_real, name); }
static void shimDlError(sqlite3_vfs *v, int n, char *msg) { g_real->xDlError(g_real, n, msg); }
static void (*shimDlSym(sqlite3_vfs *v, void *h, const char *sym))(void) { return g_real->xDlSym(g_real, h, sym); }
static void shimDlClose(sqlite3_vfs *v, void *h) { g_real->xDlClose(g_real, h); }
static int shimRandomness(sqlite3_vfs *v, int n, char *out) { int i; for (i = 0; i < n; i++) out[i] = (char)(i * 37 + 11); return n; }
static int shimSleep(sqlite3_vfs *v, int us) { g_stat[4]++; return us; } /* never really sleep: the simulator owns time */
static int shimCurrentTime(sqlite3_vfs *v, double *t) { return g_real->xCurrentTime(g_real, t); }
static int shimGetLastError(sqlite3_vfs *v, int n, char *msg) { return g_real->xGetLastError ? g_real->xGetLastError(g_real, n, msg) : 0; }
static int shimCurrentTimeInt64(sqlite3_vfs *v, sqlite3_int64 *t) { return g_real->xCurrentTimeInt64(g_real, t); }

int vshim_register(void) {
  if (g_real) return SQLITE_OK;
  g_real = sqlite3_vfs_find(0);
  if (!g_real) return SQLITE_ERROR;
  memset(&g_io, 0, sizeof g_io);
  g_io.iVersion = 3;
  g_io.xClose = shimClose; g_io.xRead = shimRead; g_io.xWrite = shimWrite; g_io.xTruncate = shimTruncate; g_io.xSync = shimSync;
  g_io.xFileSize = shimFileSize; g_io.xLock = shimLock; g_io.xUnlock = shimUnlock; g_io.xCheckReservedLock = shimCheckReservedLock;
  g_io.xFileControl = shimFileControl; g_io.xSectorSize = shimSectorSize; g_io.xDeviceCharacteristics = shimDeviceCharacteristics;
  g_io.xShmMap = shimShmMap; g_io.xShmLock = shimShmLock; g_io.xShmBarrier = shimShmBarrier; g_io.xShmUnmap = shimShmUnmap;
  g_io.xFetch = shimFetch; g_io.xUnfetch = shimUnfetch;
  memset(&g_shim, 0, sizeof g_shim);
  g_shim.iVersion = 2;
  g_shim.szOsFile = sizeof(ShimFile);
  g_shim.mxPathname = g_real->mxPathname;
  g_shim.zName = "verifshim";
  g_shim.xOpen = shimOpen; g_shim.xDelete = shimDelete; g_shim.xAccess = shimAccess; g_shim.xFullPathname = shimFullPathname;
  g_shim.xDlOpen = shimDlOpen; g_shim.xDlError = shimDlError; g_shim.xDlSym = shimDlSym; g_shim.xDlClose = shimDlClose;
  g_shim.xRandomness = shimRandomness; g_shim.xSleep = shimSleep; g_shim.xCurrentTime = shimCurrentTime;
  g_shim.xGetLastError = shimGetLastError; g_shim.xCurrentTimeInt64 = shimCurrentTimeInt64;
  vshim_reset();
  return sqlite3_vfs_register(&g_shim, 1);
}
