// Package vfs registers a pass-through SQLite VFS with a deterministic fault layer (crash
// freeze, torn write, write error, disk full, fsync error, BUSY) as the process default, so that
// everything rosmar persists goes through it. It links against the SQLite bundled with
// go-sqlite3 (no change in /repo).
package vfs

/*
#cgo CFLAGS: -I/root/go/pkg/mod/github.com/mattn/go-sqlite3@v1.14.24 -std=gnu99
#cgo LDFLAGS: -Wl,--unresolved-symbols=ignore-in-object-files
#include <stdlib.h>
#include "shim.h"
*/
import "C"

import (
	"fmt"
	"unsafe"

	_ "github.com/mattn/go-sqlite3"
)

const (
	None       = 0
	IOErrWrite = 1
	Full       = 2
	IOErrFsync = 3
	Busy       = 4
)

var KindNames = map[int]string{IOErrWrite: "write-error", Full: "disk-full", IOErrFsync: "fsync-error", Busy: "busy"}

func init() {
	if rc := C.vshim_register(); rc != 0 {
		panic(fmt.Sprintf("vfs shim: register failed: %d", int(rc)))
	}
}

func Reset() { C.vshim_reset() }
func SetFreeze(at int64, torn bool) {
	t := 0
	if torn {
		t = 1
	}
	C.vshim_set_freeze(C.int64_t(at), C.int(t))
}
func AddFault(at int64, kind int) { C.vshim_add_fault(C.int64_t(at), C.int(kind)) }
func SetKill(at int64)            { C.vshim_set_kill(C.int64_t(at)) }
func ClearFaults()                { C.vshim_clear_faults() }
func Ordinal() int64              { return int64(C.vshim_ordinal()) }
func LockOrdinal() int64          { return int64(C.vshim_lock_ordinal()) }
func Frozen() bool                { return C.vshim_frozen() != 0 }
func Fired(kind int) int64        { return int64(C.vshim_fired(C.int(kind))) }
func Stat(what int) int64         { return int64(C.vshim_stat(C.int(what))) }

// Trace returns the kinds of the mutating operations seen since Reset: pairs of
// (W write | S sync | T truncate | D delete) and (d main db | w wal | j journal | o other).
func Trace() string {
	p := (*C.char)(C.malloc(4096))
	defer C.free(unsafe.Pointer(p))
	n := C.vshim_trace(p, 4096)
	return C.GoStringN(p, n)
}
