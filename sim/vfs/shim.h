#ifndef VERIF_SHIM_H
#define VERIF_SHIM_H
#include <stdint.h>

/* Fault kinds */
#define VS_NONE 0
#define VS_IOERR_WRITE 1   /* xWrite returns SQLITE_IOERR_WRITE, nothing written */
#define VS_FULL 2          /* xWrite returns SQLITE_FULL, nothing written */
#define VS_IOERR_FSYNC 3   /* xSync returns SQLITE_IOERR_FSYNC */
#define VS_BUSY 4          /* next xLock / xShmLock(exclusive) returns SQLITE_BUSY */

int  vshim_register(void);
void vshim_reset(void);
/* freeze: from mutating-op ordinal `at` on, every mutating call fails without touching the disk
   (the process is "dead" as far as the disk is concerned). torn!=0: if op `at` is a write, the
   first half of it is applied before the freeze. at<0 disables. */
void vshim_set_freeze(int64_t at, int torn);
/* one-shot fault at mutating-op ordinal `at` (or, for VS_BUSY, at lock-call ordinal `at`) */
void vshim_add_fault(int64_t at, int kind);
/* kill the process (SIGKILL) when mutating-op ordinal `at` is reached (child-process crash tests) */
void vshim_set_kill(int64_t at);
void vshim_clear_faults(void);     /* forget faults that have not fired */
int64_t vshim_ordinal(void);       /* mutating ops seen so far */
int64_t vshim_lock_ordinal(void);  /* lock calls seen so far */
int     vshim_frozen(void);
int64_t vshim_fired(int kind);     /* how many faults of this kind actually fired */
int64_t vshim_stat(int what);      /* 0 writes 1 syncs 2 truncates 3 deletes 4 sleeps 5 torn 6 blocked-after-freeze */
/* a short trace of the kinds of the mutating ops: 'W','S','T','D' with a file class w/d/j/o */
int     vshim_trace(char *buf, int n);
#endif
