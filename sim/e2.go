package sim

import (
	"context"
	"fmt"
	"sort"
	"strings"
	"sync"
	"sync/atomic"
	"testing"
	"testing/synctest"
	"time"

	"github.com/anishathalye/porcupine"
	sgbucket "github.com/couchbase/sg-bucket"
	"github.com/couchbaselabs/rosmar"
)

// ---------------------------------------------------------------------------------------
// E2: concurrent histories. Client tasks (and rosmar's own goroutines: feed loops,
// terminator watchers, the expiry callback) are real goroutines parked at the verif hooks;
// the seeded lock-aware scheduler releases one at a time. The recorded history is judged
// afterwards: linearizability against the document model (porcupine), CAS order, feed
// contents and order, lifecycle oracles.
// ---------------------------------------------------------------------------------------

type FeedSpec struct {
	ID       string `json:"id"`
	Handle   int    `json:"handle,omitempty"`
	Coll     int    `json:"coll,omitempty"`
	KeysOnly bool   `json:"keysonly,omitempty"`
	Bucket   bool   `json:"bucket,omitempty"`   // bucket-level feed over all collections
	Backfill string `json:"backfill,omitempty"` // "" none | zero | resume
	Ckpt     string `json:"ckpt,omitempty"`
	Dump     bool   `json:"dump,omitempty"`
	Stable   bool   `json:"stable,omitempty"` // lives for the whole run: gets the full C08 comparison
	Run      int    `json:"run,omitempty"`    // n-th run of a checkpointed feed with this ID
	NoDone   bool   `json:"nodone,omitempty"` // the caller passes no done channel
}

// LogKey names the log of one run of a feed (a checkpointed feed is run several times under one ID).
func (fs FeedSpec) LogKey() string {
	if fs.Run == 0 {
		return fs.ID
	}
	return fmt.Sprintf("%s#%d", fs.ID, fs.Run)
}

type HistEntry struct {
	Task int
	Idx  int
	Op   Op
	Res  Res
	Call int64
	Ret  int64
	Done bool
}

func (h *HistEntry) String() string {
	return fmt.Sprintf("t%d.%d [%d,%d] %s -> %s", h.Task, h.Idx, h.Call, h.Ret, h.Op, resForLog(&h.Op, h.Res))
}

type commitRec struct {
	Cas    uint64
	Bucket string
	Seq    int64
}

type e2 struct {
	p             *Program
	res           *RunResult
	w             *World
	s             *Sched
	env           Env
	mu            sync.Mutex
	hist          []*HistEntry
	failedStarts  []*FeedLog // feeds whose start reported an error (they may have run for a moment)
	seq           atomic.Int64
	init          []map[string]Doc // per collection, after setup
	names         map[string]bool
	feeds         map[string]*FeedLog
	feedSpec      map[string]FeedSpec
	feedOrder     []string
	ctxs          map[uint64]*OpCtx // by goroutine id
	draws         map[uint64]uint64 // last CAS drawn per goroutine
	commits       []commitRec
	logOn         bool
	maxCas        uint64
	closedHandles map[int]bool
	deleted       bool // CloseAndDelete was called by a client
	dropped       map[int]bool
	probeCas      map[int]uint64 // collection -> CAS of the probe write made after the run
	feedsAtStart  int32
	termSeq       map[string]int64 // feed id -> event counter when its terminator watcher had closed the queue
}

func (e *e2) logf(format string, args ...any) {
	if e.logOn {
		e.res.Log = append(e.res.Log, fmt.Sprintf(format, args...))
	}
}

func (e *e2) probe(name string) {
	if e.res.Stats.Probes == nil {
		e.res.Stats.Probes = map[string]int{}
	}
	e.res.Stats.Probes[name]++
}

func RunE2(t *testing.T, p *Program, withLog bool) *RunResult {
	res := &RunResult{}
	res.Stats.Cells = map[string]int{}
	e := &e2{p: p, res: res, names: map[string]bool{}, feeds: map[string]*FeedLog{}, feedSpec: map[string]FeedSpec{}, ctxs: map[uint64]*OpCtx{}, draws: map[uint64]uint64{}, logOn: withLog, closedHandles: map[int]bool{}}
	bo := RunBubble(t, func() { e.run() })
	if e.w != nil {
		e.w.Cleanup()
	}
	Uninstall()
	rosmar.MaxDocSize = 20 * 1024 * 1024
	if bo.Panic != "" && res.Trouble == "" && res.Violation == nil {
		res.Trouble = "root panic: " + bo.Panic
	}
	if bo.Leaked && res.Violation == nil && res.Trouble == "" {
		tags := []string{"C20", "C16"}
		if p.Scenario == "openclose" {
			tags = []string{"C13", "C20"}
		}
		res.Violation = &Violation{Tags: tags, Oracle: "leak.goroutine", Msg: "goroutines (feeds, timers or database connections) were still alive inside rosmar after every feed was stopped, every handle closed and the bucket deleted"}
	}
	return res
}

func (e *e2) violate(tags []string, oracle, format string, args ...any) {
	v := &Violation{Tags: uniq(tags), Oracle: oracle, Msg: fmt.Sprintf(format, args...)}
	e.res.All = append(e.res.All, v)
	if e.res.Violation == nil {
		e.res.Violation = v
	}
}

func (e *e2) noteHook(name, detail string, n uint64, t *Task, gid uint64) {
	e.mu.Lock()
	defer e.mu.Unlock()
	switch name {
	case "txn.cas":
		e.draws[gid] = n
	case "txn.end":
		if n == 1 {
			if c, ok := e.draws[gid]; ok && c != 0 {
				e.commits = append(e.commits, commitRec{Cas: c, Bucket: detail, Seq: e.seq.Add(1)})
			}
		}
		delete(e.draws, gid)
	}
	if c := e.ctxs[gid]; c != nil {
		c.note(name, n)
	}
}

func (e *e2) run() {
	p := e.p
	start := time.Now()
	e.feedsAtStart = rosmar.VerifActiveFeeds() // (goroutines leaked by an earlier run of this process are not this run's)
	rosmar.VerifResetProcess()
	rosmar.MaxDocSize = 20 * 1024 * 1024
	if p.MaxDoc > 0 {
		rosmar.MaxDocSize = p.MaxDoc
	}
	e.env = Env{MaxDoc: p.MaxDoc}
	var tape *Tape
	if p.Tape != nil {
		tape = ReplayTape(p.SchedSeed, p.Tape)
	} else {
		tape = NewTape(p.SchedSeed)
	}
	s := NewSched(tape)
	e.s = s
	s.traceOn = true
	s.notes = e.noteHook
	e.termSeq = map[string]int64{}
	s.onPoint = func(name, detail string) {
		if name == "feed.term" {
			// the watcher goroutine has been released: it closes the feed's queue right now
			// (detail = "<feed id>/<scope>.<collection>")
			if i := strings.Index(detail, "/"); i >= 0 {
				detail = detail[:i]
			}
			e.mu.Lock()
			e.termSeq[detail] = e.seq.Add(1)
			e.mu.Unlock()
		}
	}
	if p.Strategy != "" {
		s.SetStrategy(p.Strategy, p.StratArg)
	}
	for _, f := range p.Faults {
		if f.Kind == 5 {
			if s.BusyAt == nil {
				s.BusyAt = map[int]bool{}
			}
			s.BusyAt[f.AtOp] = true
		}
	}
	stmtBefore := DisarmStmtFault()
	defer func() {
		if n := DisarmStmtFault() - stmtBefore; n > 0 {
			e.addFault("statement-failed", int(n))
		}
		if s.CommitBusyFired > 0 {
			e.addFault("busy-before-commit(retry)", s.CommitBusyFired)
		}
	}()
	s.Install()
	defer Uninstall()

	nh := p.NHandles
	if nh < 1 {
		nh = 1
	}
	w, err := OpenWorld("b1", p.OnDisk, nh, p.NColl)
	e.w = w
	if err != nil {
		e.res.Trouble = "setup: " + err.Error()
		return
	}
	// sequential setup by the root (hooks do not park the root)
	e.init = make([]map[string]Doc, p.NColl)
	for i := range e.init {
		e.init[i] = map[string]Doc{}
	}
	rootCtx := &OpCtx{}
	e.ctxs[s.rootGID] = rootCtx
	for i := range p.Setup {
		op := &p.Setup[i]
		if isControlKind(op.Kind) {
			r := e.control(op, rootCtx)
			e.logf("setup %s -> %s", op, r)
			continue
		}
		d := e.init[op.Coll][op.Key]
		op.CasArg = 0
		if op.CasMode == "cur" {
			op.CasArg = d.Cas
		}
		e.collectNames(op)
		r := Exec(w.Colls[0][op.Coll], w.Handles[0], op, nowUnix(), rootCtx)
		out := Step(d, op, &r, e.env)
		if !out.OK {
			// setup is plain sequential use; a failure here belongs to the sequential checks
			e.violate(out.Tags, "setup:"+op.Kind, "setup %s on %s: %s", op, d, out.Why)
			return
		}
		if out.Mutated {
			e.init[op.Coll][op.Key] = out.Next
			if out.Next.Cas > e.maxCas {
				e.maxCas = out.Next.Cas
			}
		}
		e.logf("setup %s -> %s", op, resForLog(op, r))
	}
	synctest.Wait()
	for _, fs := range p.Feeds {
		if _, err := e.startFeed(fs); err != nil {
			e.res.Trouble = "setup feed: " + err.Error()
			return
		}
	}
	synctest.Wait()

	// client tasks
	for ti := range p.Tasks {
		ti := ti
		s.Go(fmt.Sprintf("client%d", ti), func() { e.client(ti) })
	}
	synctest.Wait()
	s.SetParking(true)
	v := s.Run()
	if !v.Deadlock && !v.StepLimit {
		v = s.Drain()
	}
	s.mu.Lock()
	s.BusyAt = nil // the fault-injecting phase is over: teardown and the probes after it run fault-free
	s.mu.Unlock()
	DisarmStmtFault()
	e.res.Stats.SimSeconds = time.Since(start).Seconds()
	e.res.Stats.NonTrivial = s.Stats.Preemptions > 0
	e.res.Stats.Shape = fmt.Sprintf("%016x", s.TraceHash())
	e.res.Stats.Ops = 0
	for _, t := range p.Tasks {
		e.res.Stats.Ops += len(t)
	}
	if e.res.Stats.Probes == nil {
		e.res.Stats.Probes = map[string]int{}
	}
	e.res.Stats.Probes["sched.steps"] += s.Stats.Steps
	e.res.Stats.Probes["sched.preemptions"] += s.Stats.Preemptions
	e.res.Stats.Probes["sched.time_advances"] += s.Stats.TimeAdvance
	for site, n := range s.SiteHits {
		e.res.Stats.Probes["park@"+site] += n
	}
	if e.logOn {
		for _, h := range e.sortedHist() {
			e.logf("%s", h)
		}
		e.logf("schedule: %s", strings.Join(s.trace, " "))
	}
	if v.Deadlock {
		e.violate([]string{"C20"}, "deadlock", "deadlock: no task can move and simulated time does not help: %s", v.Detail)
		e.abandon()
		return
	}
	if v.StepLimit {
		e.res.Trouble = "step limit reached: " + v.Detail
		e.abandon()
		return
	}
	for i := 0; i < 6 && len(s.HeldMutexes()) > 0; i++ {
		// somebody may hold a mutex while sleeping on the simulated clock (rosmar's back-off between the
		// attempts of a transaction, with the bucket mutex held): let that time pass - with the hooks
		// still parking, so that whatever wakes up is scheduled like everything else - and finish the
		// work it releases, before a held mutex counts as leaked
		s.advance(400 * time.Millisecond)
		if v2 := s.Drain(); v2.Deadlock || v2.StepLimit {
			break
		}
	}
	s.SetParking(false)
	synctest.Wait()
	for _, t := range s.Tasks() {
		if t.Client && t.Panic != nil {
			e.violate([]string{"C20"}, "client.panic", "client task %s panicked outside an operation: %v", t.Name, t.Panic)
		}
	}
	if held := s.HeldMutexes(); len(held) > 0 {
		e.violate([]string{"C20"}, "lock.leaked", "every task has finished but these mutexes are still locked: %v", held)
		e.abandon()
		return
	}
	e.finalReads()
	e.judge()
	// teardown
	for _, id := range e.feedOrder {
		e.feeds[id].Stop()
	}
	synctest.Wait()
	e.teardownOracles()
	deleted := e.deleted
	for hi, h := range w.Handles {
		if !e.closedHandles[hi] && !deleted {
			_ = h.CloseAndDelete(context.Background())
			deleted = true
		}
	}
	if !deleted {
		// every handle was closed: an in-memory store lives on until it is deleted
		if b, err := rosmar.OpenBucket(w.URL, w.Name, rosmar.CreateOrOpen); err == nil {
			_ = b.CloseAndDelete(context.Background())
		}
	}
	synctest.Wait()
	e.afterShutdown()
	if n := rosmar.VerifActiveFeeds() - e.feedsAtStart; n > 0 && e.res.Violation == nil {
		e.violate([]string{"C16", "C20"}, "leak.feed", "%d feed goroutine(s) of this run still running after every feed was stopped and the bucket deleted", n)
	}
}

// abandon leaves the bubble after a deadlock: parked goroutines stay blocked (the bubble's
// leak panic is swallowed by RunBubble) and the process-level state is reset by the next run.
func (e *e2) abandon() {}

func (e *e2) collectNames(op *Op) {
	for k := range op.Xattrs {
		e.names[k] = true
	}
	for _, k := range op.XDel {
		e.names[k] = true
	}
	for _, k := range op.XNames {
		e.names[k] = true
	}
	for _, a := range op.Cb {
		for k := range a.Xattrs {
			e.names[k] = true
		}
		for _, k := range a.XDel {
			e.names[k] = true
		}
	}
}

func (e *e2) startFeed(fs FeedSpec) (*FeedLog, error) {
	var bf uint64 = sgbucket.FeedNoBackfill
	switch fs.Backfill {
	case "zero":
		bf = 0
	case "resume":
		bf = sgbucket.FeedResume
	}
	stepFn := func() int { return int(e.seq.Add(1)) }
	var f *FeedLog
	var err error
	if fs.Bucket {
		colls := make([]int, e.p.NColl)
		for i := range colls {
			colls[i] = i
		}
		f, err = e.w.StartBucketFeed(fs.Handle, colls, fs.ID, bf, fs.Dump, fs.Ckpt, stepFn, fs.NoDone)
	} else {
		f, err = e.w.StartFeed(fs.Handle, fs.Coll, fs.ID, bf, fs.Dump, fs.KeysOnly, fs.Ckpt, stepFn)
	}
	if err != nil {
		// (a bucket-level feed that failed to start may have run for a moment on the collections that
		// did start: what its callback received counts as delivered)
		if f != nil && fs.Ckpt != "" {
			e.mu.Lock()
			e.failedStarts = append(e.failedStarts, f)
			e.mu.Unlock()
		}
		return nil, err
	}
	e.mu.Lock()
	e.feeds[fs.LogKey()] = f
	e.feedSpec[fs.LogKey()] = fs
	e.feedOrder = append(e.feedOrder, fs.LogKey())
	e.mu.Unlock()
	return f, nil
}

func (e *e2) client(ti int) {
	gid := curGID()
	ctx := &OpCtx{}
	e.mu.Lock()
	e.ctxs[gid] = ctx
	e.mu.Unlock()
	last := map[string]uint64{}  // CAS this client last saw per key
	stale := map[string]uint64{} // a CAS it saw earlier
	for c, docs := range e.init {
		for k, d := range docs {
			last[fmt.Sprintf("%d/%s", c, k)] = d.Cas
		}
	}
	ops := e.p.Tasks[ti]
	mine := 0 // the handle this client opened last (ops with Handle == -1 use it)
	for i := range ops {
		op := ops[i] // copy: resolved fields stay out of the program
		k := fmt.Sprintf("%d/%s", op.Coll, op.Key)
		switch op.CasMode {
		case "cur":
			op.CasArg = last[k]
		case "stale":
			op.CasArg = stale[k]
			if op.CasArg == 0 {
				op.CasArg = 777
			}
		case "bogus":
			op.CasArg = 999999999999
		default:
			op.CasArg = 0
		}
		if op.Handle == -1 {
			op.Handle = mine
		}
		if i > 0 {
			// a scheduling point (and quiescence of everything the previous operation set in motion)
			// between two operations of a client
			e.s.pointHook("op", "")
		}
		h := &HistEntry{Task: ti, Idx: i, Op: op}
		e.mu.Lock()
		e.hist = append(e.hist, h)
		e.mu.Unlock()
		h.Call = e.seq.Add(1)
		armed := false
		for _, f := range e.p.Faults {
			if f.Kind == 6 && f.AtOp == ti*100+i {
				ArmStmtFault(1 + f.Offset)
				armed = true
			}
		}
		h.Res = e.execE2(&h.Op, ctx)
		if armed {
			DisarmStmtFault()
		}
		h.Ret = e.seq.Add(1)
		h.Done = true
		if op.Kind == "OpenHandle" && h.Res.Err == "" {
			mine = int(h.Res.Val)
		}
		if c := h.Res.Cas; c != 0 && h.Res.Err == "" {
			if last[k] != 0 && last[k] != c {
				stale[k] = last[k]
			}
			last[k] = c
		} else if h.Res.Err == "" && h.Res.NewCas != 0 && h.Res.Commits > 0 && !isReadKind(op.Kind) {
			if last[k] != 0 {
				stale[k] = last[k]
			}
			last[k] = 0 // the API did not tell this client the new CAS
		}
	}
}

func isReadKind(k string) bool {
	switch k {
	case "GetRaw", "Get", "Exists", "GetExpiry", "GetWithXattrs", "GetXattrs", "GetSubDocRaw":
		return true
	}
	return false
}

func isControlKind(k string) bool {
	switch k {
	case "StartFeed", "StopFeed", "WaitFeed", "Close", "CloseAndDelete", "DropColl", "CreateColl", "OpenHandle", "OpenOther", "HLCBurn", "Sleep", "View", "Yield", "PutDDoc", "DelDDoc":
		return true
	}
	return false
}

// execE2 runs a data operation or a control operation.
func (e *e2) execE2(op *Op, ctx *OpCtx) Res {
	if !isControlKind(op.Kind) {
		e.mu.Lock()
		h := op.Handle
		if h >= len(e.w.Handles) || h < 0 {
			h = 0
		}
		ds, b := e.w.Colls[h][op.Coll], e.w.Handles[h]
		e.mu.Unlock()
		if ds == nil {
			return Res{Err: EClosed, ErrText: "no data store (handle closed)"}
		}
		return Exec(ds, b, op, nowUnix(), ctx)
	}
	return e.control(op, ctx)
}

func (e *e2) sortedHist() []*HistEntry {
	e.mu.Lock()
	hs := append([]*HistEntry(nil), e.hist...)
	e.mu.Unlock()
	sort.Slice(hs, func(i, j int) bool { return hs[i].Call < hs[j].Call })
	return hs
}

// finalReads appends, as ordinary history entries issued after everything else, a full
// read-back of every key: the final state must be one a linearization can reach.
func (e *e2) finalReads() {
	if e.closedHandles[0] && len(e.closedHandles) >= len(e.w.Handles) {
		return
	}
	h := 0
	for e.closedHandles[h] {
		h++
	}
	names := []string{}
	for n := range e.names {
		if validXattrName(n) {
			names = append(names, n)
		}
	}
	sort.Strings(names)
	names = append(names, "$document")
	keys := map[string]bool{}
	for _, t := range e.p.Tasks {
		for _, o := range t {
			if o.Key != "" && !isControlKind(o.Kind) {
				keys[fmt.Sprintf("%d/%s", o.Coll, o.Key)] = true
			}
		}
	}
	for c, docs := range e.init {
		for k := range docs {
			keys[fmt.Sprintf("%d/%s", c, k)] = true
		}
	}
	var ks []string
	for k := range keys {
		ks = append(ks, k)
	}
	sort.Strings(ks)
	for _, ck := range ks {
		var c int
		var k string
		fmt.Sscanf(ck, "%d/", &c)
		k = ck[strings.Index(ck, "/")+1:]
		if c >= len(e.w.Colls[h]) || e.w.Colls[h][c] == nil {
			continue
		}
		for _, rop := range []Op{{Kind: "GetWithXattrs", Coll: c, Key: k, XNames: names}, {Kind: "GetRaw", Coll: c, Key: k}, {Kind: "GetExpiry", Coll: c, Key: k}} {
			he := &HistEntry{Task: -1, Op: rop}
			he.Call = e.seq.Add(1)
			he.Res = Exec(e.w.Colls[h][c], e.w.Handles[h], &he.Op, nowUnix(), nil)
			he.Ret = e.seq.Add(1)
			he.Done = true
			e.hist = append(e.hist, he)
			e.logf("final %s", he)
		}
	}
}

// ---------------------------------------------------------------------------------------
// Oracles over the recorded history
// ---------------------------------------------------------------------------------------

func (e *e2) judge() {
	hist := e.sortedHist()
	// 0. panics inside operations
	for _, h := range hist {
		if h.Res.Panic != "" {
			e.violate([]string{"C20", "C01"}, "op.panic", "%s panicked: %s", h.Op, h.Res.ErrText)
			return
		}
	}
	e.judgeCas(hist)
	e.judgeLinearizable(hist)
	e.judgeCasRace(hist)
	e.judgeSubdocLost(hist)
	e.judgeFeeds(hist)
	switch e.p.Scenario {
	case "backfill-race":
		e.judgeBackfillRace(hist)
	case "ckpt":
		e.judgeCheckpoint(hist)
	case "term":
		e.judgeTermination(hist)
	case "openclose":
		e.judgeOpenClose(hist)
	case "insert-race":
		e.judgeInsertRace(hist)
	case "expiry-race":
		e.judgeExpiryRace(hist)
	case "view-race":
		e.judgeViewRace(hist)
	}
}

// C04: CAS values are unique and increase in commit order.
func (e *e2) judgeCas(hist []*HistEntry) {
	// per bucket: a CAS is drawn and committed under that bucket's mutex; between two buckets only the
	// draws are ordered (which the uniqueness check below and the real-time check cover)
	prevOf := map[string]uint64{}
	for _, c := range e.commits {
		if prev := prevOf[c.Bucket]; c.Cas <= prev {
			e.violate([]string{"C04"}, "cas.commit-order", "transaction committed with CAS %d after a transaction of the same bucket with CAS %d had committed (CAS must increase in commit order)", c.Cas, prev)
			return
		}
		prevOf[c.Bucket] = c.Cas
	}
	for _, h := range hist {
		if h.Res.Err == "" && h.Res.Cas != 0 && h.Res.NewCas != 0 && !isReadKind(h.Op.Kind) && h.Op.Kind != "Touch" && h.Op.Kind != "GetAndTouchRaw" && h.Res.Cas != h.Res.NewCas {
			e.violate([]string{"C04", "C01"}, "cas.returned", "%s returned CAS %d but its transaction committed CAS %d", h.Op, h.Res.Cas, h.Res.NewCas)
			return
		}
	}
	// real-time order of non-overlapping successful writes
	type w struct {
		cas       uint64
		call, ret int64
		op        string
	}
	var ws []w
	for _, h := range hist {
		if h.Task >= 0 && h.Res.Err == "" && h.Res.Commits > 0 && h.Res.NewCas != 0 && h.Op.Kind != "SetWithMeta" && h.Op.Kind != "DeleteWithMeta" {
			ws = append(ws, w{h.Res.NewCas, h.Call, h.Ret, h.Op.String()})
		}
	}
	for i := range ws {
		for j := range ws {
			if ws[i].ret < ws[j].call && ws[i].cas >= ws[j].cas {
				e.violate([]string{"C04"}, "cas.realtime", "%s finished (CAS %d) before %s started, which got the smaller or equal CAS %d", ws[i].op, ws[i].cas, ws[j].op, ws[j].cas)
				return
			}
		}
	}
}

type keyHist struct {
	coll int
	key  string
	ops  []*HistEntry
}

func (e *e2) partition(hist []*HistEntry) []*keyHist {
	m := map[string]*keyHist{}
	var order []string
	for _, h := range hist {
		if isControlKind(h.Op.Kind) || !h.Done || h.Op.Key == "" {
			continue
		}
		k := fmt.Sprintf("%d/%s", h.Op.Coll, h.Op.Key)
		if m[k] == nil {
			m[k] = &keyHist{coll: h.Op.Coll, key: h.Op.Key}
			order = append(order, k)
		}
		m[k].ops = append(m[k].ops, h)
	}
	sort.Strings(order)
	var out []*keyHist
	for _, k := range order {
		out = append(out, m[k])
	}
	return out
}

// C03: the per-key history must be linearizable with respect to the document model.
func (e *e2) judgeLinearizable(hist []*HistEntry) {
	if e.p.NoLin {
		return
	}
	for _, kh := range e.partition(hist) {
		if len(kh.ops) > 40 {
			e.probe("lin.skipped-too-long")
			continue
		}
		init := e.init[kh.coll][kh.key]
		env := e.env
		model := porcupine.Model{
			Init: func() interface{} { return init },
			Step: func(state, input, output interface{}) (bool, interface{}) {
				h := input.(*HistEntry)
				if injectedFailure(&h.Res) {
					// the call said it failed because of the injected statement failure: it must have
					// changed nothing (what later reads return decides whether that is true)
					return true, state
				}
				out := Step(state.(Doc), &h.Op, &h.Res, env)
				if !out.OK {
					return false, state
				}
				return true, out.Next
			},
			Equal: func(a, b interface{}) bool { return a.(Doc).Canon() == b.(Doc).Canon() },
		}
		var ops []porcupine.Operation
		for _, h := range kh.ops {
			ops = append(ops, porcupine.Operation{ClientId: h.Task + 1, Input: h, Output: h, Call: h.Call, Return: h.Ret})
		}
		res := porcupine.CheckOperationsTimeout(model, ops, 20*time.Second)
		oracle := "linearizability"
		if res == porcupine.Illegal {
			// is the failure explained by the one recorded defect (unchecked tombstone resurrection)?
			env.AllowUncheckedResurrection = true
			if porcupine.CheckOperationsTimeout(model, ops, 20*time.Second) == porcupine.Ok {
				oracle = "linearizability.unchecked-resurrection"
			}
			env.AllowUncheckedResurrection = false
		}
		switch res {
		case porcupine.Unknown:
			e.probe("lin.unknown")
		case porcupine.Illegal:
			var b strings.Builder
			for _, h := range kh.ops {
				b.WriteString("\n    " + h.String())
			}
			tags := []string{"C03"}
			if strings.HasPrefix(e.p.Scenario, "subdoc") {
				tags = append(tags, "C18") // read-modify-write of a property not equivalent to an atomic one
			}
			sc := e.p.Scenario
			if oracle != "linearizability" {
				sc = "" // the recorded C03 defect: belongs to no other property
			}
			switch sc {
			case "lin-rw":
				tags = append(tags, "C01") // a read did not return what the most recent successful write left
			case "lin-tomb":
				tags = append(tags, "C05") // observers disagree on deleted / live, or a deleted body came back
			case "lin-xattr":
				tags = append(tags, "C07") // an xattr write touched more than it named (body, expiry, other xattrs)
			}
			if e.p.Scenario == "rev-race" {
				tags = append(tags, "C17") // the model state includes the revision number and the final $document
			}
			e.violate(tags, oracle, "the history of key %q (collection %d, initial state %s) has no linearization consistent with the document model:%s", kh.key, kh.coll, init, b.String())
			return
		default:
			e.probe("lin.ok")
		}
	}
}

var conditionalKinds = map[string]bool{"WriteCas": true, "Remove": true, "WriteWithXattrs": true, "WriteTombstoneWithXattrs": true,
	"UpdateXattrs": true, "RemoveXattrs": true, "SetWithMeta": true, "DeleteWithMeta": true, "WriteSubDoc": true, "SubdocInsert": true}

// C02: two writers that both read version v can never both succeed in replacing v.
func (e *e2) judgeCasRace(hist []*HistEntry) {
	seen := map[string]*HistEntry{}
	for _, h := range hist {
		if !conditionalKinds[h.Op.Kind] || h.Res.Err != "" || h.Op.CasArg == 0 || h.Res.Commits == 0 {
			continue
		}
		if h.Op.Kind == "WriteCas" && sgbucket.WriteOptions(h.Op.WOpt)&sgbucket.AddOnly != 0 {
			continue // insert-style: its CAS argument is not a version check (pinned by TestNoCasOnResurrection)
		}
		k := fmt.Sprintf("%d/%s/%d", h.Op.Coll, h.Op.Key, h.Op.CasArg)
		if prev := seen[k]; prev != nil {
			e.violate([]string{"C02"}, "cas.double-success", "two conditional writes carrying the same expected CAS %d both succeeded on key %q:\n    %s\n    %s", h.Op.CasArg, h.Op.Key, prev, h)
			return
		}
		seen[k] = h
	}
	if len(seen) > 0 {
		e.probe("casrace.conditional-success")
	}
}

// C18: with only sub-document writers of distinct properties, no property update is lost.
func (e *e2) judgeSubdocLost(hist []*HistEntry) {
	if e.p.Scenario != "subdoc-distinct" {
		return
	}
	want := map[string]map[string]string{} // key -> prop -> json value
	for _, h := range hist {
		if (h.Op.Kind == "WriteSubDoc" || h.Op.Kind == "SubdocInsert") && h.Res.Err == "" && h.Op.Body != nil && *h.Op.Body != "" {
			k := fmt.Sprintf("%d/%s", h.Op.Coll, h.Op.Key)
			if want[k] == nil {
				want[k] = map[string]string{}
			}
			want[k][h.Op.Path] = *h.Op.Body
		}
	}
	for _, h := range hist {
		if h.Task != -1 || h.Op.Kind != "GetRaw" {
			continue
		}
		k := fmt.Sprintf("%d/%s", h.Op.Coll, h.Op.Key)
		props := want[k]
		if len(props) == 0 {
			continue
		}
		if h.Res.Err != "" {
			e.violate([]string{"C18"}, "subdoc.lost", "sub-document writes to %q succeeded but the document finally reads %s", h.Op.Key, h.Res.Err)
			return
		}
		doc, _ := jsonValue(string(h.Res.Body)).(map[string]any)
		for path, v := range props {
			var cur any = doc
			ok := true
			for _, part := range strings.Split(path, ".") {
				m, isMap := cur.(map[string]any)
				if !isMap {
					ok = false
					break
				}
				cur, ok = m[part]
				if !ok {
					break
				}
			}
			got := cur
			if !ok || !jsonEqual(mustJSON(got), v) {
				e.violate([]string{"C18"}, "subdoc.lost", "the successful sub-document write of property %q = %s to key %q is missing from the final document %s (an update was lost)", path, v, h.Op.Key, h.Res.Body)
				return
			}
		}
		e.probe("subdoc.checked")
	}
}

func mustJSON(v any) string {
	b, _ := jsonMarshal(v)
	return string(b)
}

// expectedEvents replays the successful mutations of each key in CAS order through the
// model and returns, per collection, the events the live feeds must have carried.
func (e *e2) expectedEvents(hist []*HistEntry) (map[int][]*ExpEvent, bool) {
	out := map[int][]*ExpEvent{}
	ok := true
	for _, kh := range e.partition(hist) {
		var muts []*HistEntry
		for _, h := range kh.ops {
			if h.Task >= 0 && h.Res.Err == "" && !isReadKind(h.Op.Kind) && h.Res.Commits > 0 {
				muts = append(muts, h)
			}
		}
		casOf := func(h *HistEntry) uint64 {
			if h.Op.Kind == "SetWithMeta" || h.Op.Kind == "DeleteWithMeta" {
				return h.Op.NewCas
			}
			return h.Res.NewCas
		}
		sort.SliceStable(muts, func(i, j int) bool { return casOf(muts[i]) < casOf(muts[j]) })
		d := e.init[kh.coll][kh.key]
		env := e.env
		env.AllowUncheckedResurrection = true // (not this oracle's business)
		for _, h := range muts {
			o := Step(d, &h.Op, &h.Res, env)
			if !o.OK {
				ok = false // the linearizability oracle speaks about this
				break
			}
			if o.Event != nil {
				out[kh.coll] = append(out[kh.coll], o.Event)
			}
			d = o.Next
		}
	}
	for c := range out {
		sort.SliceStable(out[c], func(i, j int) bool { return out[c][i].Cas < out[c][j].Cas })
	}
	return out, ok
}

// C08: every live feed received exactly the events of the successful mutations of its
// collection(s), each once, in increasing CAS order.
func (e *e2) judgeFeeds(hist []*HistEntry) {
	if e.p.NoFeedOracle || len(e.feeds) == 0 {
		return
	}
	exp, ok := e.expectedEvents(hist)
	if !ok {
		return
	}
	for _, id := range e.feedOrder {
		fs := e.feedSpec[id]
		if !fs.Stable { // feeds that are started or stopped mid-run are judged by their own oracles
			continue
		}
		f := e.feeds[id]
		var got []ObsEvent
		for _, ev := range f.Snapshot() {
			if ev.Opcode == sgbucket.FeedOpMutation || ev.Opcode == sgbucket.FeedOpDeletion {
				got = append(got, ev)
			}
		}
		var want []*ExpEvent
		wantColl := map[*ExpEvent]int{}
		if fs.Bucket {
			for c := 0; c < e.p.NColl; c++ {
				for _, x := range exp[c] {
					want = append(want, x)
					wantColl[x] = c
				}
			}
			sort.SliceStable(want, func(i, j int) bool { return want[i].Cas < want[j].Cas })
		} else {
			want = exp[fs.Coll]
			for _, x := range want {
				wantColl[x] = fs.Coll
			}
		}
		// exactly-once, content: match by CAS
		byCas := map[uint64]*ExpEvent{}
		for _, x := range want {
			byCas[x.Cas] = x
		}
		seen := map[uint64]bool{}
		for _, o := range got {
			x := byCas[o.Cas]
			if x == nil {
				e.violate([]string{"C08"}, "feed.unexpected", "feed %s received %s, which is not the event of any successful mutation of its collection", id, o)
				return
			}
			if seen[o.Cas] {
				e.violate([]string{"C08"}, "feed.duplicate", "feed %s received the event of CAS %d twice: %s", id, o.Cas, o)
				return
			}
			seen[o.Cas] = true
			xx := *x
			if fs.KeysOnly {
				xx.HasBody, xx.Body, xx.X, xx.JSON = false, "", map[string]string{}, -1
				o.HasBody, o.Body = false, ""
				o.X = map[string]string{}
				o.DataType &^= sgbucket.FeedDataTypeXattr
			}
			if what, tags := compareEvent(o, &xx, "C08"); what != "" {
				e.violate(tags, "feed.content."+strings.SplitN(what, " ", 2)[0], "feed %s: event %s differs from its mutation: %s", id, o, what)
				return
			}
			if want := uint32(collectionID(wantColl[x])); o.CollID != want && fs.Bucket {
				e.violate([]string{"C08", "C11"}, "feed.collection", "feed %s: event %s carries collection id %d, expected %d", id, o, o.CollID, want)
				return
			}
		}
		for _, x := range want {
			if !seen[x.Cas] {
				e.violate([]string{"C08"}, "feed.missing", "feed %s (handle %d, collection %d) never received the event of the successful mutation of %q with CAS %d (%d of %d events delivered)", id, fs.Handle, fs.Coll, x.Key, x.Cas, len(got), len(want))
				return
			}
		}
		// order
		for i := 1; i < len(got); i++ {
			if got[i].Cas < got[i-1].Cas && (!fs.Bucket || got[i].CollID == got[i-1].CollID) {
				e.violate([]string{"C08"}, "feed.order", "feed %s delivered CAS %d (%s) after CAS %d (%s): events of one collection must arrive in increasing CAS order", id, got[i].Cas, got[i].Key, got[i-1].Cas, got[i-1].Key)
				return
			}
		}
		if len(got) > 1 {
			e.probe("feed.checked-multi")
		}
	}
}

func collectionID(coll int) int { return coll }

func (e *e2) teardownOracles() {
	// every feed must be done after its terminator was closed, exactly once (a double close
	// of the done channel would have panicked), and must not call back afterwards
	for _, id := range e.feedOrder {
		f := e.feeds[id]
		if e.feedSpec[id].NoDone {
			continue // nothing to observe: only the goroutine census at the end of the run speaks about it
		}
		if !f.IsDone() {
			e.violate([]string{"C16"}, "feed.not-done", "feed %s did not close its done channel after its terminator was closed", id)
			return
		}
		if f.AfterDone > 0 {
			e.violate([]string{"C16"}, "feed.callback-after-done", "feed %s invoked its callback %d time(s) after closing its done channel", id, f.AfterDone)
			return
		}
	}
}

// C06 (concurrent): the key had no body and the clients only use insert-style entry points, so at
// most one of them may report success, and the final document is that one's.
func (e *e2) judgeInsertRace(hist []*HistEntry) {
	var winners []*HistEntry
	for _, h := range hist {
		if h.Task < 0 || h.Res.Err != "" {
			continue
		}
		if (h.Op.Kind == "Add" || h.Op.Kind == "AddRaw") && !h.Res.Added {
			continue
		}
		winners = append(winners, h)
	}
	if len(winners) > 1 {
		e.violate([]string{"C06"}, "insert.double-success", "the key %q had no body and %d insert-only writes raced: %d of them report success (an insert overwrote a live document):\n    %s\n    %s", winners[0].Op.Key, len(e.p.Tasks), len(winners), winners[0], winners[1])
		return
	}
	if len(winners) == 1 && winners[0].Op.Body != nil {
		for _, h := range hist {
			if h.Task == -1 && h.Op.Kind == "GetRaw" {
				if h.Res.Err != "" || string(h.Res.Body) != *winners[0].Op.Body {
					e.violate([]string{"C06", "C01"}, "insert.final", "the only successful insert wrote %q but the key finally reads %q (err=%s)", *winners[0].Op.Body, h.Res.Body, h.Res.Err)
					return
				}
			}
		}
		e.probe("insertrace.one-winner")
	}
}

// C14 (concurrent): a client that, around the deadline, successfully gave the document a later (or
// no) expiry has a live document with that expiry in force. The expiry sweep may have won the race
// (then the client's touch fails, or its Set re-creates the document) but it must not delete the
// document AFTER the client's write was acknowledged: at the end, with simulated time still before
// the new deadline, the document must be readable.
func (e *e2) judgeExpiryRace(hist []*HistEntry) {
	var lastWrite *HistEntry
	for _, h := range hist {
		if h.Task < 0 || isReadKind(h.Op.Kind) || isControlKind(h.Op.Kind) || h.Res.Err != "" {
			continue
		}
		if lastWrite == nil || h.Ret > lastWrite.Ret {
			lastWrite = h
		}
	}
	if lastWrite == nil {
		return
	}
	// only judge when that write was not overlapped by another client's write
	for _, h := range hist {
		if h != lastWrite && h.Task >= 0 && !isReadKind(h.Op.Kind) && !isControlKind(h.Op.Kind) && h.Ret > lastWrite.Call && h.Call < lastWrite.Ret {
			return
		}
	}
	// the write must have left a LIVE document: a touch or Set only succeeds on / always yields one;
	// for other entry points the writer's own read right afterwards has to have seen the body
	liveAfter := lastWrite.Op.Kind == "Touch" || lastWrite.Op.Kind == "GetAndTouchRaw" || lastWrite.Op.Kind == "Set"
	for _, h := range hist {
		if h.Task == lastWrite.Task && h.Idx == lastWrite.Idx+1 && h.Op.Kind == "GetRaw" && h.Res.Err == "" {
			liveAfter = true
		}
	}
	if !liveAfter {
		return
	}
	newExp := absExp(&lastWrite.Op)
	now := nowUnix()
	if newExp != 0 && newExp <= now+1 {
		return
	}
	for _, h := range hist {
		if h.Task == -1 && h.Op.Kind == "GetRaw" && h.Op.Key == lastWrite.Op.Key {
			if h.Res.Err != "" {
				e.violate([]string{"C14"}, "expiry.race-early", "%s succeeded, leaving %q live with expiry %d (0 = never); simulated time is %d, yet the document finally reads %s: the expiry sweep deleted it on the strength of its OLD deadline", lastWrite, lastWrite.Op.Key, newExp, now, h.Res.Err)
				return
			}
			e.probe("expiryrace.checked")
		}
	}
}

// injectedFailure: did the call fail with the error only the harness's statement authorizer produces?
func injectedFailure(r *Res) bool {
	if r.Err == "" {
		return false
	}
	t := strings.ToLower(r.ErrText)
	return strings.Contains(t, "not authorized") || strings.Contains(t, "is prohibited")
}

func (e *e2) addFault(kind string, n int) {
	if e.res.Stats.Faults == nil {
		e.res.Stats.Faults = map[string]int{}
	}
	e.res.Stats.Faults[kind] += n
}
