package sim

import (
	"context"
	"errors"
	"fmt"
	"runtime"
	"sort"
	"strings"

	sgbucket "github.com/couchbase/sg-bucket"
	"github.com/couchbaselabs/rosmar"
)

// ---------------------------------------------------------------------------------------
// Operation vocabulary. An Op is fully explicit (serialisable into a replay file) except
// for CAS arguments, which are symbolic ("cur", "stale", "bogus", "zero") and resolved when
// the operation runs, and absolute expiries, which are offsets from the simulated clock.
// ---------------------------------------------------------------------------------------

type CbAct struct {
	Act    string            `json:"act"`              // set | delete | cancel | retry | err | xattrs | tomb
	Body   *string           `json:"body,omitempty"`   // new body (nil: leave / none)
	Exp    *uint32           `json:"exp,omitempty"`    // expiry offset returned by the callback
	Xattrs map[string]string `json:"xattrs,omitempty"` // WriteUpdateWithXattrs: xattrs to set
	XDel   []string          `json:"xdel,omitempty"`
	Macros []Macro           `json:"macros,omitempty"`
}

type Macro struct {
	Path string `json:"path"`
	Type int    `json:"type"` // 0 = CAS, 1 = crc32c
}

type Op struct {
	Kind     string            `json:"kind"`
	Coll     int               `json:"coll,omitempty"`
	Handle   int               `json:"handle,omitempty"`
	Key      string            `json:"key,omitempty"`
	Body     *string           `json:"body,omitempty"`
	ExpKind  int               `json:"expkind,omitempty"` // 0 none, 1 relative offset, 2 absolute (now+ExpVal), 3 the document's present deadline again
	ExpVal   uint32            `json:"expval,omitempty"`
	CasMode  string            `json:"casmode,omitempty"` // zero | cur | stale | bogus
	Preserve bool              `json:"preserve,omitempty"`
	WOpt     int               `json:"wopt,omitempty"` // sgbucket.WriteOptions bits
	Xattrs   map[string]string `json:"xattrs,omitempty"`
	XDel     []string          `json:"xdel,omitempty"`
	XDelNil  bool              `json:"xdelnil,omitempty"` // pass nil (not empty) xattrsToDelete
	XNames   []string          `json:"xnames,omitempty"`
	XEcho    []string          `json:"xecho,omitempty"` // xattr names whose CURRENT value is written back unchanged (resolved at run time)
	DelBody  bool              `json:"delbody,omitempty"`
	Path     string            `json:"path,omitempty"`
	Amt      uint64            `json:"amt,omitempty"`
	Def      uint64            `json:"def,omitempty"`
	Cb       []CbAct           `json:"cb,omitempty"`
	Macros   []Macro           `json:"macros,omitempty"`
	NewCas   uint64            `json:"newcas,omitempty"` // WithMeta: offset added to a base
	JSON     bool              `json:"json,omitempty"`   // WithMeta datatype
	Dur      int               `json:"dur,omitempty"`    // advance-time ops: seconds
	Feed     *FeedSpec         `json:"feed,omitempty"`   // StartFeed / StopFeed / WaitFeed
	// Resolved at run time (recorded for the model and for replay diagnostics):
	CasArg uint64 `json:"-"`
	ExpArg uint32 `json:"-"`
	Now    uint32 `json:"-"`
}

func (o Op) String() string {
	var b strings.Builder
	fmt.Fprintf(&b, "%s(", o.Kind)
	if o.Coll != 0 {
		fmt.Fprintf(&b, "c%d ", o.Coll)
	}
	if o.Handle != 0 {
		fmt.Fprintf(&b, "h%d ", o.Handle)
	}
	b.WriteString(o.Key)
	if o.Body != nil {
		fmt.Fprintf(&b, " body=%q", *o.Body)
	}
	if o.ExpKind != 0 {
		fmt.Fprintf(&b, " exp=%d/%d", o.ExpKind, o.ExpVal)
	}
	if o.CasMode != "" {
		fmt.Fprintf(&b, " cas=%s", o.CasMode)
	}
	if o.Preserve {
		b.WriteString(" preserve")
	}
	if o.WOpt != 0 {
		fmt.Fprintf(&b, " wopt=%d", o.WOpt)
	}
	if len(o.Xattrs) > 0 {
		fmt.Fprintf(&b, " x=%v", sortedMap(o.Xattrs))
	}
	if len(o.XDel) > 0 {
		fmt.Fprintf(&b, " xdel=%v", o.XDel)
	}
	if len(o.XNames) > 0 {
		fmt.Fprintf(&b, " names=%v", o.XNames)
	}
	if len(o.XEcho) > 0 {
		fmt.Fprintf(&b, " echo=%v", o.XEcho)
	}
	if o.DelBody {
		b.WriteString(" delbody")
	}
	if o.Path != "" {
		fmt.Fprintf(&b, " path=%s", o.Path)
	}
	if o.Kind == "Incr" {
		fmt.Fprintf(&b, " amt=%d def=%d", o.Amt, o.Def)
	}
	if len(o.Cb) > 0 {
		b.WriteString(" cb=[")
		for _, a := range o.Cb {
			b.WriteString(a.Act)
			if a.Body != nil {
				fmt.Fprintf(&b, ":%q", *a.Body)
			}
			b.WriteString(" ")
		}
		b.WriteString("]")
	}
	if len(o.Macros) > 0 {
		fmt.Fprintf(&b, " macros=%v", o.Macros)
	}
	if o.Dur != 0 {
		fmt.Fprintf(&b, " dur=%ds", o.Dur)
	}
	b.WriteString(")")
	return b.String()
}

func sortedMap(m map[string]string) string {
	ks := make([]string, 0, len(m))
	for k := range m {
		ks = append(ks, k)
	}
	sort.Strings(ks)
	var b strings.Builder
	b.WriteString("{")
	for i, k := range ks {
		if i > 0 {
			b.WriteString(",")
		}
		fmt.Fprintf(&b, "%s:%s", k, m[k])
	}
	b.WriteString("}")
	return b.String()
}

// CbView is what a callback invocation was shown.
type CbView struct {
	Body    []byte
	HasBody bool
	Xattrs  map[string]string
	Cas     uint64
}

// Res is everything observable about one call.
type Res struct {
	Err     string // error class, "" = success
	ErrText string
	Cas     uint64 // CAS returned by the API (casOut / read CAS)
	Added   bool
	Body    []byte
	HasBody bool
	Xattrs  map[string]string
	Exp     uint32
	Exists  bool
	Val     uint64
	Count   int64
	Cb      []CbView
	Rows    []vrow // view queries of concurrent programs
	// Facts reported by the note hooks while the call ran on this goroutine:
	NewCas    uint64 // CAS drawn by the last transaction of the call
	Commits   int    // number of committed transactions
	Rollbacks int
	CasDraws  []uint64
	Panic     string
}

func (r Res) String() string {
	var b strings.Builder
	if r.Panic != "" {
		fmt.Fprintf(&b, "PANIC(%s) ", r.Panic)
	}
	if r.Err != "" {
		// (the error text is not printed: rosmar builds some texts while ranging over a map)
		fmt.Fprintf(&b, "err=%s", r.Err)
	} else {
		b.WriteString("ok")
	}
	if r.Cas != 0 {
		fmt.Fprintf(&b, " cas=%d", r.Cas)
	}
	if r.Added {
		b.WriteString(" added")
	}
	if r.HasBody {
		fmt.Fprintf(&b, " body=%q", r.Body)
	}
	if r.Xattrs != nil {
		fmt.Fprintf(&b, " x=%s", sortedMap(r.Xattrs))
	}
	if r.Exp != 0 {
		fmt.Fprintf(&b, " exp=%d", r.Exp)
	}
	if r.Exists {
		b.WriteString(" exists")
	}
	if r.Val != 0 {
		fmt.Fprintf(&b, " val=%d", r.Val)
	}
	if r.Commits != 0 {
		fmt.Fprintf(&b, " commits=%d newcas=%d", r.Commits, r.NewCas)
	}
	return b.String()
}

// Error classes.
const (
	EMissing      = "missing"
	EXattrMissing = "xattrmissing"
	ECas          = "cas"
	EExists       = "exists"
	EPathNotFound = "pathnotfound"
	EPathExists   = "pathexists"
	EPathMismatch = "pathmismatch"
	ETooBig       = "toobig"
	EClosed       = "closed"
	EArg          = "arg"
	EDB           = "db"
	ECallback     = "callback"
	EOther        = "other"
	EPanic        = "panic"
)

var errCallback = errors.New("verif: callback error")

func classify(err error) string {
	if err == nil {
		return ""
	}
	var me sgbucket.MissingError
	var xe sgbucket.XattrMissingError
	var ce sgbucket.CasMismatchErr
	var te sgbucket.DocTooBigErr
	var de *rosmar.DatabaseError
	switch {
	case errors.Is(err, errCallback):
		return ECallback
	case errors.As(err, &me):
		return EMissing
	case errors.As(err, &xe):
		return EXattrMissing
	case errors.As(err, &ce):
		return ECas
	case errors.Is(err, sgbucket.ErrKeyExists):
		return EExists
	case errors.Is(err, sgbucket.ErrPathNotFound):
		return EPathNotFound
	case errors.Is(err, sgbucket.ErrPathExists):
		return EPathExists
	case errors.Is(err, sgbucket.ErrPathMismatch):
		return EPathMismatch
	case errors.As(err, &te):
		return ETooBig
	case errors.Is(err, rosmar.ErrBucketClosed):
		return EClosed
	case errors.Is(err, sgbucket.ErrNilXattrValue), errors.Is(err, sgbucket.ErrDeleteXattrOnDocumentInsert),
		errors.Is(err, sgbucket.ErrNeedXattrs), errors.Is(err, sgbucket.ErrUpsertAndDeleteSameXattr),
		errors.Is(err, sgbucket.ErrNeedBody), errors.Is(err, sgbucket.ErrDeleteXattrOnTombstone),
		errors.Is(err, sgbucket.ErrDeleteXattrOnTombstoneResurrection):
		return EArg
	case errors.As(err, &de):
		if strings.Contains(err.Error(), "closed") {
			return EClosed
		}
		return EDB
	}
	if strings.Contains(err.Error(), "database is closed") {
		return EClosed
	}
	return EOther
}

func strp(s string) *string { return &s }

func bytesOf(p *string) []byte {
	if p == nil {
		return nil
	}
	return []byte(*p)
}

func toByteMap(m map[string]string) map[string][]byte {
	if m == nil {
		return nil
	}
	out := make(map[string][]byte, len(m))
	for k, v := range m {
		out[k] = []byte(v)
	}
	return out
}

func toStrMap(m map[string][]byte) map[string]string {
	out := make(map[string]string, len(m))
	for k, v := range m {
		out[k] = string(v)
	}
	return out
}

func macroSpecs(ms []Macro) []sgbucket.MacroExpansionSpec {
	var out []sgbucket.MacroExpansionSpec
	for _, m := range ms {
		out = append(out, sgbucket.NewMacroExpansionSpec(m.Path, sgbucket.MacroExpansionType(m.Type)))
	}
	return out
}

// OpCtx gives an executing operation access to the note counters of its goroutine.
type OpCtx struct {
	res *Res
}

func (c *OpCtx) note(name string, n uint64) {
	if c == nil || c.res == nil {
		return
	}
	switch name {
	case "txn.cas":
		c.res.CasDraws = append(c.res.CasDraws, n)
	case "txn.end":
		if n == 1 {
			c.res.Commits++
			if k := len(c.res.CasDraws); k > 0 {
				c.res.NewCas = c.res.CasDraws[k-1]
			}
		} else {
			c.res.Rollbacks++
			if k := len(c.res.CasDraws); k > 0 {
				c.res.CasDraws = c.res.CasDraws[:k-1]
			}
		}
	}
}

// Exec runs op against the collection. nowUnix is the simulated wall clock in seconds.
// The caller must have resolved op.CasArg. Panics in the callee are recovered and reported.
func Exec(ds sgbucket.DataStore, bucket *rosmar.Bucket, op *Op, nowUnix uint32, ctx *OpCtx) (res Res) {
	if ctx != nil {
		ctx.res = &res
		defer func() { ctx.res = nil }()
	}
	defer func() {
		if r := recover(); r != nil {
			buf := make([]byte, 2048)
			n := runtime.Stack(buf, false)
			res.Panic = fmt.Sprint(r)
			res.Err = EPanic
			res.ErrText = fmt.Sprint(r) + " @ " + firstRosmarFrame(string(buf[:n]))
		}
	}()
	bg := context.Background()
	op.Now = nowUnix
	switch op.ExpKind {
	case 0:
		op.ExpArg = 0
	case 1:
		op.ExpArg = op.ExpVal
	case 2:
		op.ExpArg = nowUnix + op.ExpVal
	case 3:
		// (resolved by the engine: the absolute deadline the document carries right now)
	}
	exp := op.ExpArg
	var err error
	var upsert *sgbucket.UpsertOptions
	if op.Preserve {
		upsert = &sgbucket.UpsertOptions{PreserveExpiry: true}
	}
	var mopts *sgbucket.MutateInOptions
	if op.Preserve || len(op.Macros) > 0 {
		mopts = &sgbucket.MutateInOptions{PreserveExpiry: op.Preserve, MacroExpansion: macroSpecs(op.Macros)}
	}
	xdel := op.XDel
	if op.XDelNil {
		xdel = nil
	} else if xdel == nil && !op.XDelNil {
		xdel = nil
	}
	switch op.Kind {
	// ---- reads
	case "GetRaw":
		res.Body, res.Cas, err = ds.GetRaw(op.Key)
		res.HasBody = res.Body != nil
	case "Get":
		var b []byte
		res.Cas, err = ds.Get(op.Key, &b)
		res.Body, res.HasBody = b, b != nil
	case "Exists":
		res.Exists, err = ds.Exists(op.Key)
	case "GetExpiry":
		res.Exp, err = ds.GetExpiry(bg, op.Key)
	case "GetWithXattrs":
		var xv map[string][]byte
		res.Body, xv, res.Cas, err = ds.GetWithXattrs(bg, op.Key, op.XNames)
		res.HasBody = res.Body != nil
		if err == nil {
			res.Xattrs = toStrMap(xv)
		}
	case "GetXattrs":
		var xv map[string][]byte
		xv, res.Cas, err = ds.GetXattrs(bg, op.Key, op.XNames)
		if err == nil {
			res.Xattrs = toStrMap(xv)
		}
	case "GetSubDocRaw":
		res.Body, res.Cas, err = ds.GetSubDocRaw(bg, op.Key, op.Path)
		res.HasBody = res.Body != nil
	// ---- plain writes
	case "Add":
		res.Added, err = ds.Add(op.Key, exp, bytesOf(op.Body))
	case "AddRaw":
		res.Added, err = ds.AddRaw(op.Key, exp, bytesOf(op.Body))
	case "Set":
		err = ds.Set(op.Key, exp, upsert, bytesOf(op.Body))
	case "SetRaw":
		err = ds.SetRaw(op.Key, exp, upsert, bytesOf(op.Body))
	case "WriteCas":
		var v any
		if op.Body != nil {
			v = bytesOf(op.Body)
		}
		res.Cas, err = ds.WriteCas(op.Key, exp, op.CasArg, v, sgbucket.WriteOptions(op.WOpt))
	case "Remove":
		res.Cas, err = ds.Remove(op.Key, op.CasArg)
	case "Delete":
		err = ds.Delete(op.Key)
	case "Incr":
		res.Val, err = ds.Incr(op.Key, op.Amt, op.Def, exp)
	case "Touch":
		res.Cas, err = ds.Touch(op.Key, exp)
	case "GetAndTouchRaw":
		res.Body, res.Cas, err = ds.GetAndTouchRaw(op.Key, exp)
		res.HasBody = res.Body != nil
	case "Update":
		i := 0
		res.Cas, err = ds.Update(op.Key, exp, func(cur []byte) ([]byte, *uint32, bool, error) {
			res.Cb = append(res.Cb, CbView{Body: append([]byte(nil), cur...), HasBody: cur != nil})
			a := op.Cb[minInt(i, len(op.Cb)-1)]
			i++
			if i > 20 {
				return nil, nil, false, errCallback
			}
			var ep *uint32
			if a.Exp != nil {
				e := nowUnix + *a.Exp
				ep = &e
			}
			switch a.Act {
			case "set":
				return bytesOf(a.Body), ep, false, nil
			case "delete":
				return nil, ep, true, nil
			case "cancel":
				return nil, nil, false, nil
			case "retry":
				return nil, nil, false, sgbucket.ErrCasFailureShouldRetry
			default:
				return nil, nil, false, errCallback
			}
		})
	// ---- xattr family
	case "SetXattrs":
		xv := map[string][]byte{}
		for k, v := range op.Xattrs {
			xv[k] = []byte(v)
		}
		for _, k := range op.XDel {
			xv[k] = nil
		}
		res.Cas, err = ds.SetXattrs(bg, op.Key, xv)
	case "UpdateXattrs":
		res.Cas, err = ds.UpdateXattrs(bg, op.Key, exp, op.CasArg, toByteMap(op.Xattrs), mopts)
	case "RemoveXattrs":
		err = ds.RemoveXattrs(bg, op.Key, op.XDel, op.CasArg)
	case "DeleteSubDocPaths":
		err = ds.DeleteSubDocPaths(bg, op.Key, op.XDel...)
	case "WriteWithXattrs":
		res.Cas, err = ds.WriteWithXattrs(bg, op.Key, exp, op.CasArg, bytesOf(op.Body), toByteMap(op.Xattrs), xdel, mopts)
	case "WriteTombstoneWithXattrs":
		res.Cas, err = ds.WriteTombstoneWithXattrs(bg, op.Key, exp, op.CasArg, toByteMap(op.Xattrs), xdel, op.DelBody, mopts)
	case "WriteResurrectionWithXattrs":
		res.Cas, err = ds.WriteResurrectionWithXattrs(bg, op.Key, exp, bytesOf(op.Body), toByteMap(op.Xattrs), mopts)
	case "DeleteWithXattrs":
		err = ds.DeleteWithXattrs(bg, op.Key, op.XDel)
	case "WriteUpdateWithXattrs":
		i := 0
		if mopts == nil {
			mopts = &sgbucket.MutateInOptions{}
		}
		res.Cas, err = ds.WriteUpdateWithXattrs(bg, op.Key, op.XNames, exp, nil, mopts,
			func(doc []byte, xattrs map[string][]byte, cas uint64) (sgbucket.UpdatedDoc, error) {
				res.Cb = append(res.Cb, CbView{Body: append([]byte(nil), doc...), HasBody: doc != nil, Xattrs: toStrMap(xattrs), Cas: cas})
				a := op.Cb[minInt(i, len(op.Cb)-1)]
				i++
				if i > 20 {
					return sgbucket.UpdatedDoc{}, errCallback
				}
				var ep *uint32
				if a.Exp != nil {
					e := nowUnix + *a.Exp
					ep = &e
				}
				switch a.Act {
				case "set", "xattrs":
					return sgbucket.UpdatedDoc{Doc: bytesOf(a.Body), Xattrs: toByteMap(a.Xattrs), XattrsToDelete: a.XDel, Expiry: ep, Spec: macroSpecs(a.Macros)}, nil
				case "tomb":
					return sgbucket.UpdatedDoc{Xattrs: toByteMap(a.Xattrs), XattrsToDelete: a.XDel, IsTombstone: true, Expiry: ep, Spec: macroSpecs(a.Macros)}, nil
				case "retry":
					return sgbucket.UpdatedDoc{}, sgbucket.ErrCasFailureShouldRetry
				default:
					return sgbucket.UpdatedDoc{}, errCallback
				}
			})
	case "SetWithMeta", "DeleteWithMeta":
		c := ds.(*rosmar.Collection)
		var xa []byte
		if len(op.Xattrs) > 0 {
			xa = []byte(xattrBlob(op.Xattrs))
		}
		if op.Kind == "SetWithMeta" {
			dt := sgbucket.FeedDataTypeRaw
			if op.JSON {
				dt = sgbucket.FeedDataTypeJSON
			}
			err = c.SetWithMeta(bg, op.Key, op.CasArg, op.NewCas, exp, xa, bytesOf(op.Body), dt)
		} else {
			err = c.DeleteWithMeta(bg, op.Key, op.CasArg, op.NewCas, exp, xa)
		}
	// ---- subdoc
	case "WriteSubDoc":
		res.Cas, err = ds.WriteSubDoc(bg, op.Key, op.Path, op.CasArg, bytesOf(op.Body))
	case "SubdocInsert":
		var v any
		if op.Body != nil {
			v = jsonValue(*op.Body)
		}
		err = ds.SubdocInsert(bg, op.Key, op.Path, op.CasArg, v)
	// ---- bucket level
	case "Purge":
		res.Count, err = bucket.PurgeTombstones()
	default:
		panic("unknown op kind " + op.Kind)
	}
	res.Err = classify(err)
	if err != nil {
		res.ErrText = err.Error()
	}
	return res
}

func minInt(a, b int) int {
	if a < b {
		return a
	}
	return b
}

// xattrBlob builds the JSON object holding all xattrs, keys sorted (what rosmar stores).
func xattrBlob(m map[string]string) string {
	if len(m) == 0 {
		return ""
	}
	ks := make([]string, 0, len(m))
	for k := range m {
		ks = append(ks, k)
	}
	sort.Strings(ks)
	var b strings.Builder
	b.WriteString("{")
	for i, k := range ks {
		if i > 0 {
			b.WriteString(",")
		}
		fmt.Fprintf(&b, "%q:%s", k, m[k])
	}
	b.WriteString("}")
	return b.String()
}

func firstRosmarFrame(stack string) string {
	lines := strings.Split(stack, "\n")
	for i, l := range lines {
		if strings.Contains(l, "rosmar.") && !strings.Contains(l, "verifsim") && i+1 < len(lines) {
			f := strings.TrimSpace(lines[i+1])
			if j := strings.LastIndex(f, "/"); j >= 0 {
				f = f[j+1:]
			}
			if j := strings.Index(f, " "); j >= 0 {
				f = f[:j]
			}
			fn := l
			if j := strings.LastIndex(fn, "."); j >= 0 {
				fn = fn[j+1:]
			}
			if j := strings.Index(fn, "("); j >= 0 {
				fn = fn[:j]
			}
			if strings.Contains(l, "panic") {
				continue
			}
			return fn + " " + f
		}
	}
	return "?"
}
