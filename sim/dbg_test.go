package sim

import (
	"fmt"
	"os"
	"sort"
	"strconv"
	"strings"
	"testing"
)

// TestDebugSeed runs one seed of one property with the trace on (developer aid).
func TestDebugSeed(t *testing.T) {
	prop := os.Getenv("DBG_PROP")
	if prop == "" {
		t.Skip()
	}
	seed, _ := strconv.ParseUint(os.Getenv("DBG_SEED"), 10, 64)
	eng := engines[propEngines[prop][0]]
	if e := os.Getenv("DBG_ENGINE"); e != "" {
		eng = engines[e]
	}
	prog := eng.Gen(prop, seed)
	if os.Getenv("DBG_PRINT_PROG") != "" {
		for i, o := range prog.Ops {
			fmt.Printf("op %d: %s\n", i, o)
		}
		fmt.Printf("ondisk=%v ncoll=%d twob=%v faults=%v\n", prog.OnDisk, prog.NColl, prog.TwoBuckets, prog.Faults)
	}
	res := eng.Run(t, prog, true)
	for _, l := range res.Log {
		fmt.Println(l)
	}
	fmt.Printf("violation=%+v\ntrouble=%q\n", res.Violation, res.Trouble)
}

// TestSelfDeterminism executes SELFTEST_SEEDS seeds of every (property, engine) with the full
// trace on and writes a digest per execution; the driver runs it in several processes with
// different GOMAXPROCS and compares.
func TestSelfDeterminism(t *testing.T) {
	outPath := os.Getenv("SELFTEST_OUT")
	if outPath == "" {
		t.Skip()
	}
	n, _ := strconv.Atoi(os.Getenv("SELFTEST_SEEDS"))
	base, _ := strconv.ParseUint(os.Getenv("SELFTEST_BASE"), 10, 64)
	digests := map[string]string{}
	var props []string
	for p := range propEngines {
		props = append(props, p)
	}
	sort.Strings(props)
	for _, prop := range props {
		for ei, en := range propEngines[prop] {
			eng := engines[en]
			for i := 0; i < n; i++ {
				seed := seedFor(base, uint64(i*len(propEngines[prop])+ei))
				prog := eng.Gen(prop, seed)
				res := eng.Run(t, prog, true)
				digests[fmt.Sprintf("%s/%s/%d", prop, en, seed)] = hashOf(map[string]any{"log": res.Log, "v": res.Violation, "t": res.Trouble})
				if d := os.Getenv("SELFTEST_DUMP"); d != "" {
					_ = os.WriteFile(fmt.Sprintf("%s/%s-%s-%d.log", d, prop, en, seed), []byte(strings.Join(res.Log, "\n")+fmt.Sprintf("\n%+v %s\n", res.Violation, res.Trouble)), 0644)
				}
			}
		}
	}
	for i, prop := range []string{"C08", "C15"} { // the backlog engine: two executions are enough (they are slow)
		seed := seedFor(base, uint64(7000+i))
		prog := GenE4(prop, seed)
		res := RunE4(t, prog, true)
		digests[fmt.Sprintf("%s/e4/%d", prop, seed)] = hashOf(map[string]any{"log": res.Log, "v": res.Violation, "t": res.Trouble, "p": res.Stats.Probes})
	}
	writeJSONAtomic(outPath, digests)
}
