package sim

import (
	"context"
	"fmt"
	"testing"
	"testing/synctest"
	"time"

	sgbucket "github.com/couchbase/sg-bucket"
	"github.com/couchbaselabs/rosmar"
)

// ---------------------------------------------------------------------------------------
// E4: backlog runs. A feed whose consumer has stalled lets N events pile up in its queue
// (N around the round numbers at which a "protective" bound would sit), then the consumer
// resumes: every event must still be delivered exactly once and in order, the feed must still
// be running, a dump feed over the N documents must be complete and bracketed by its markers,
// and a checkpointed feed stopped after the backlog must resume without a gap. A run takes
// around a second, so the worker gives this engine one run in a few hundred (backlogEvery).
// ---------------------------------------------------------------------------------------

var backlogSizes = []int{1100, 4200, 8300, 10100}

func GenE4(prop string, seed uint64) *Program {
	r := NewRng(seed ^ 0xE4E4)
	prog := &Program{Engine: "e4", Prop: prop, Seed: seed}
	prog.OnDisk = r.Chance(15)
	if prop == "C14" {
		prog.Overdue = 16 + r.Intn(12)
		return prog
	}
	prog.Backlog = backlogSizes[r.Intn(len(backlogSizes))]
	return prog
}

type e4 struct {
	p   *Program
	res *RunResult
}

// violate records a violation; the parts of a backlog run are independent, so the run goes on and
// the property under check picks its own (RunResult.For).
func (e *e4) violate(tags []string, oracle, format string, args ...any) {
	v := &Violation{Tags: tags, Oracle: oracle, Msg: fmt.Sprintf(format, args...)}
	e.res.All = append(e.res.All, v)
	if e.res.Violation == nil || (e.p.Prop != "" && !e.res.Violation.Has(e.p.Prop) && v.Has(e.p.Prop)) {
		e.res.Violation = v
	}
}

func RunE4(t *testing.T, p *Program, withLog bool) *RunResult {
	res := &RunResult{}
	res.Stats.Cells = map[string]int{}
	if p.Backlog == 0 && p.Overdue == 0 {
		return res
	}
	e := &e4{p: p, res: res}
	var w *World
	bo := RunBubble(t, func() {
		if p.Overdue > 0 {
			w = e.runOverdue()
		} else {
			w = e.run()
		}
	})
	if w != nil {
		w.Cleanup()
	}
	if bo.Panic != "" && res.Violation == nil && res.Trouble == "" {
		res.Trouble = "backlog run panicked: " + bo.Panic
	}
	res.Stats.Ops = p.Backlog + p.Overdue
	res.Stats.NonTrivial = true
	return res
}

func (e *e4) run() *World {
	rosmar.VerifResetProcess()
	rosmar.VerifSetClock(nil)
	rosmar.MaxDocSize = 20 * 1024 * 1024
	n := e.p.Backlog
	w, err := OpenWorld("bl", e.p.OnDisk, 1, 1)
	if err != nil {
		e.res.Trouble = "setup: " + err.Error()
		return w
	}
	b := w.Handles[0]
	ds := w.Colls[0][0]
	coll := ds.(*rosmar.Collection)
	defer func() {
		_ = b.CloseAndDelete(context.Background())
		synctest.Wait()
	}()

	// a live feed whose callback stalls on its first event, and a checkpointed one next to it
	gate := make(chan struct{})
	stalled := func(log *FeedLog) sgbucket.FeedEventCallbackFunc {
		first := true
		return func(ev sgbucket.FeedEvent) bool {
			if first {
				first = false
				<-gate
			}
			return log.callback(ev)
		}
	}
	live := &FeedLog{ID: "slow", Done: make(chan struct{}), Term: make(chan bool)}
	if err := coll.StartDCPFeed(context.Background(), sgbucket.FeedArguments{ID: "slow", Backfill: sgbucket.FeedNoBackfill, Terminator: live.Term, DoneChan: live.Done}, stalled(live), nil); err != nil {
		e.res.Trouble = "start feed: " + err.Error()
		return w
	}
	ck := &FeedLog{ID: "ckslow", Done: make(chan struct{}), Term: make(chan bool)}
	if err := coll.StartDCPFeed(context.Background(), sgbucket.FeedArguments{ID: "ckslow", Backfill: sgbucket.FeedResume, CheckpointPrefix: "cp", Terminator: ck.Term, DoneChan: ck.Done}, stalled(ck), nil); err != nil {
		e.res.Trouble = "start checkpointed feed: " + err.Error()
		return w
	}
	for i := 0; i < n; i++ {
		if err := ds.SetRaw(fmt.Sprintf("d%05d", i), 0, nil, []byte("x")); err != nil {
			e.res.Trouble = fmt.Sprintf("write %d: %v", i, err)
			return w
		}
	}
	synctest.Wait()
	close(gate)
	synctest.Wait()
	if live.IsDone() {
		e.violate([]string{"C16"}, "backlog.feed-ended", "a live feed whose consumer had stalled while %d mutations were made has ended, although nobody terminated it", n)
	}
	check := func(log *FeedLog, what string, tags []string) bool {
		var prev uint64
		got := 0
		seen := map[string]bool{}
		for _, ev := range dataEvents(log) {
			if len(ev.Key) > 3 && ev.Key[:3] == "cp:" {
				continue
			}
			if ev.Cas <= prev {
				e.violate([]string{"C08"}, "backlog.order", "%s delivered CAS %d after CAS %d", what, ev.Cas, prev)
				return false
			}
			prev = ev.Cas
			if seen[ev.Key] {
				e.violate([]string{"C08"}, "backlog.duplicate", "%s delivered %q twice", what, ev.Key)
				return false
			}
			seen[ev.Key] = true
			got++
		}
		if got != n {
			e.violate(tags, "backlog.lost", "%s whose consumer had stalled while %d mutations were made delivered %d of them once it resumed", what, n, got)
			return false
		}
		return true
	}
	check(live, "a live feed", []string{"C08", "C16"})
	// backfill of all N documents: complete, bracketed
	dump := &FeedLog{ID: "dump", Done: make(chan struct{}), Term: make(chan bool)}
	if err := coll.StartDCPFeed(context.Background(), sgbucket.FeedArguments{ID: "dump", Backfill: 0, Dump: true, Terminator: dump.Term, DoneChan: dump.Done}, dump.callback, nil); err != nil {
		e.violate([]string{"C09"}, "backlog.dump-start", "a dump feed over %d documents failed to start: %v", n, err)
	}
	synctest.Wait()
	evs := dump.Snapshot()
	if !dump.IsDone() || len(evs) < 2 || evs[0].Opcode != sgbucket.FeedOpBeginBackfill || evs[len(evs)-1].Opcode != sgbucket.FeedOpEndBackfill {
		first, last := "none", "none"
		if len(evs) > 0 {
			first, last = evs[0].Opcode.String(), evs[len(evs)-1].Opcode.String()
		}
		e.violate([]string{"C09", "C16"}, "backlog.dump-markers", "a dump feed over %d documents: done=%v, %d events, first %s, last %s (expected begin ... end markers and a closed done channel)", n, dump.IsDone(), len(evs), first, last)
	}
	nd := 0
	for _, ev := range evs {
		if ev.Opcode == sgbucket.FeedOpMutation && (len(ev.Key) < 3 || ev.Key[:3] != "cp:") {
			nd++
		}
	}
	if nd != n {
		e.violate([]string{"C09"}, "backlog.dump-lost", "a dump feed (backfill from 0) over %d documents delivered %d", n, nd)
	}
	dump.Stop()
	// the checkpointed feed: one more mutation, stop, resume as a dump: nothing may be missing
	if err := ds.SetRaw("last", 0, nil, []byte("y")); err != nil {
		e.res.Trouble = "write last: " + err.Error()
		return w
	}
	synctest.Wait()
	ck.Stop()
	synctest.Wait()
	if !ck.IsDone() {
		e.violate([]string{"C16"}, "backlog.ck-not-done", "the checkpointed feed did not end after its terminator was closed")
	}
	ck2 := &FeedLog{ID: "ckslow", Done: make(chan struct{}), Term: make(chan bool)}
	if err := coll.StartDCPFeed(context.Background(), sgbucket.FeedArguments{ID: "ckslow", Backfill: sgbucket.FeedResume, CheckpointPrefix: "cp", Dump: true, Terminator: ck2.Term, DoneChan: ck2.Done}, ck2.callback, nil); err != nil {
		e.violate([]string{"C15"}, "backlog.resume-start", "the checkpointed feed could not be resumed: %v", err)
		return w
	}
	synctest.Wait()
	ck2.Stop()
	seen := map[string]bool{}
	for _, l := range []*FeedLog{ck, ck2} {
		for _, ev := range dataEvents(l) {
			seen[ev.Key] = true
		}
	}
	missing := 0
	example := ""
	for i := 0; i < n; i++ {
		if k := fmt.Sprintf("d%05d", i); !seen[k] {
			missing++
			if example == "" {
				example = k
			}
		}
	}
	if !seen["last"] {
		missing++
		example = "last"
	}
	if missing > 0 {
		e.violate([]string{"C15"}, "backlog.resume-gap", "a checkpointed feed whose consumer had stalled while %d mutations were made, stopped later and resumed: %d documents (e.g. %q) were delivered by neither run", n, missing, example)
		return w
	}
	live.Stop()
	synctest.Wait()
	if e.res.Stats.Probes == nil {
		e.res.Stats.Probes = map[string]int{}
	}
	e.res.Stats.Probes[fmt.Sprintf("backlog.checked:%d", n)]++
	return w
}

// runOverdue: documents whose expiry time has already passed when they are written, one after the
// other (each after the previous one has gone), alternating between two collections. Every one of
// them must be gone within the few seconds the statement allows - the twentieth as promptly as the first.
func (e *e4) runOverdue() *World {
	rosmar.VerifResetProcess()
	rosmar.VerifSetClock(nil)
	rosmar.MaxDocSize = 20 * 1024 * 1024
	w, err := OpenWorld("od", e.p.OnDisk, 1, 2)
	if err != nil {
		e.res.Trouble = "setup: " + err.Error()
		return w
	}
	b := w.Handles[0]
	defer func() {
		_ = b.CloseAndDelete(context.Background())
		synctest.Wait()
	}()
	const grace = 5 * time.Second
	for i := 0; i < e.p.Overdue; i++ {
		ds := w.Colls[0][i%2]
		key := fmt.Sprintf("o%03d", i)
		exp := uint32(time.Now().Unix() - 1)
		if err := ds.SetRaw(key, exp, nil, []byte("x")); err != nil {
			e.res.Trouble = fmt.Sprintf("write %d: %v", i, err)
			return w
		}
		time.Sleep(grace)
		synctest.Wait()
		e.res.Stats.SimSeconds += grace.Seconds()
		if _, _, err := ds.GetRaw(key); err == nil {
			e.violate([]string{"C14"}, "expiry.overdue-burst", "document %d of a series written one after the other with an expiry time that had already passed (%q, expiry %d) is still readable %v after it was written; the earlier ones were removed in time", i+1, key, exp, grace)
			return w
		}
	}
	if e.res.Stats.Probes == nil {
		e.res.Stats.Probes = map[string]int{}
	}
	e.res.Stats.Probes["overdue.checked"]++
	return w
}
