package sim

import (
	"verifsim/vfs"

	"context"
	"encoding/json"
	"fmt"
	"sort"
	"strings"
	"testing/synctest"

	sgbucket "github.com/couchbase/sg-bucket"
	"github.com/couchbaselabs/rosmar"
)

// ---------------------------------------------------------------------------------------
// Views (C12) and SQL queries (C19) inside the sequential engine: pseudo-operations
// "PutDDoc", "DelDDoc", "View" and "Query" whose results are compared with an independent
// Go evaluation over the model's current documents.
// ---------------------------------------------------------------------------------------

// The fixed family of map functions, in JavaScript and (evalMap) in Go.
var mapFamily = map[string]string{
	"F0": `function(doc, meta){ emit(meta.id, null); }`,
	"F1": `function(doc, meta){ if (doc.v !== undefined) emit(doc.v, meta.id); }`,
	"F2": `function(doc, meta){ if (Array.isArray(doc.w)) { for (var i = 0; i < doc.w.length; i++) emit(doc.w[i], doc.v === undefined ? null : doc.v); } }`,
	"F3": `function(doc, meta){ if (meta.xattrs && meta.xattrs._sync && meta.xattrs._sync.r !== undefined) emit(meta.xattrs._sync.r, (doc.v === undefined) ? null : doc.v); }`,
	"F5": `function(doc, meta){ emit(meta.id, doc); }`,
	"F4": `function(doc, meta){ emit([doc.s === undefined ? null : doc.s, doc.v === undefined ? null : doc.v], 1); }`,
}

type vrow struct {
	ID    string
	Key   any
	Value any
}

// docObject is what the map function sees as `doc`: the parsed body of a JSON document,
// {} for anything else (raw bodies, tombstones).
// unknownIsJSON decides how documents whose JSON flag is unspecified (AddRaw) are seen; the
// view oracle accepts either reading.
var unknownIsJSON bool

func docObject(d Doc) any {
	if d.HasBody && (d.JSON == 1 || (d.JSON == -1 && unknownIsJSON)) {
		var v any
		if json.Unmarshal([]byte(d.Body), &v) == nil {
			return v
		}
	}
	return map[string]any{}
}

func prop(doc any, name string) (any, bool) {
	m, ok := doc.(map[string]any)
	if !ok {
		return nil, false
	}
	v, ok := m[name]
	return v, ok
}

// evalMap is the Go meaning of the map family for one document.
func evalMap(fam string, id string, d Doc) []vrow {
	if !(d.HasBody || len(d.X) > 0) {
		return nil // neither body nor xattrs: not seen by views
	}
	doc := docObject(d)
	var out []vrow
	orNull := func(name string) any {
		v, ok := prop(doc, name)
		if !ok {
			return nil
		}
		return v
	}
	switch fam {
	case "F0":
		out = append(out, vrow{id, id, nil})
	case "F1":
		if v, ok := prop(doc, "v"); ok {
			out = append(out, vrow{id, v, id})
		}
	case "F2":
		if w, ok := prop(doc, "w"); ok {
			if arr, isArr := w.([]any); isArr {
				for _, el := range arr {
					out = append(out, vrow{id, el, orNull("v")})
				}
			}
		}
	case "F3":
		if s, ok := d.X["_sync"]; ok {
			var sv any
			if json.Unmarshal([]byte(s), &sv) == nil {
				if r, ok := prop(sv, "r"); ok {
					out = append(out, vrow{id, r, orNull("v")})
				}
			}
		}
	case "F5":
		out = append(out, vrow{id, id, doc}) // the body itself, whatever JSON value it is
	case "F4":
		out = append(out, vrow{id, []any{orNull("s"), orNull("v")}, float64(1)})
	}
	return out
}

type viewDef struct {
	Fam    string
	Reduce string
}

func (e *e1) ddocsOf(coll int) map[string]map[string]viewDef {
	if e.ddocs == nil {
		e.ddocs = map[int]map[string]map[string]viewDef{}
	}
	if e.ddocs[coll] == nil {
		e.ddocs[coll] = map[string]map[string]viewDef{}
	}
	return e.ddocs[coll]
}

func parseViewSpec(spec string) viewDef {
	parts := strings.SplitN(spec, ":", 2)
	vd := viewDef{Fam: parts[0]}
	if len(parts) == 2 {
		vd.Reduce = parts[1]
	}
	return vd
}

func buildDDoc(views map[string]string) *sgbucket.DesignDoc {
	dd := &sgbucket.DesignDoc{Language: "javascript", Views: sgbucket.ViewMap{}}
	for name, spec := range views {
		vd := parseViewSpec(spec)
		dd.Views[name] = sgbucket.ViewDef{Map: mapFamily[vd.Fam], Reduce: vd.Reduce}
	}
	return dd
}

// collVia returns the collection through handle h (C12 runs open two handles on the bucket).
func (e *e1) collVia(h, coll int) *rosmar.Collection {
	if h <= 0 || h >= len(e.w.Colls) || h == 9 {
		h = 0
	}
	return e.w.Colls[h][coll].(*rosmar.Collection)
}

func (e *e1) doPutDDoc(op *Op) *Violation {
	c := e.collVia(op.Handle, op.Coll)
	if op.Kind == "DelDDoc" {
		err := c.DeleteDDoc(op.Key)
		_, had := e.ddocsOf(op.Coll)[op.Key]
		e.logf("#%d DelDDoc(c%d %s) -> %v", e.step, op.Coll, op.Key, err)
		if (err == nil) != had {
			return e.violate([]string{"C12"}, "ddoc.delete", "step %d: DeleteDDoc(%s) returned %v, design document existed: %v", e.step, op.Key, err, had)
		}
		delete(e.ddocsOf(op.Coll), op.Key)
		return nil
	}
	err := c.PutDDoc(context.Background(), op.Key, buildDDoc(op.Xattrs))
	e.logf("#%d PutDDoc(c%d %s %v) -> %v", e.step, op.Coll, op.Key, sortedMap(op.Xattrs), err)
	if err != nil {
		return e.violate([]string{"C12"}, "ddoc.put", "step %d: PutDDoc(%s) failed: %v", e.step, op.Key, err)
	}
	views := map[string]viewDef{}
	for name, spec := range op.Xattrs {
		views[name] = parseViewSpec(spec)
	}
	e.ddocsOf(op.Coll)[op.Key] = views
	return nil
}

func canonKey(v any) string {
	b, _ := json.Marshal(v)
	return string(b)
}

// expectedView evaluates view + parameters over the model, independently of rosmar's SQL.
func (e *e1) expectedView(coll int, vd viewDef, params map[string]any) ([]vrow, bool) {
	var rows []vrow
	docs := e.docs[coll]
	for _, id := range keysOf(docs, "") {
		rows = append(rows, evalMap(vd.Fam, id, docs[id])...)
	}
	var coll8 sgbucket.JSONCollator
	less := func(a, b vrow) bool {
		if c := coll8.Collate(a.Key, b.Key); c != 0 {
			return c < 0
		}
		return a.ID < b.ID
	}
	sort.SliceStable(rows, func(i, j int) bool { return less(rows[i], rows[j]) })
	desc, _ := params["descending"].(bool)
	if desc {
		for i, j := 0, len(rows)-1; i < j; i, j = i+1, j-1 {
			rows[i], rows[j] = rows[j], rows[i]
		}
	}
	cmp := func(a, b any) int { return coll8.Collate(a, b) }
	if keys, ok := params["keys"].([]any); ok {
		var kept []vrow
		for _, r := range rows {
			for _, k := range keys {
				if cmp(r.Key, k) == 0 {
					kept = append(kept, r) // (once per time the key was asked for)
				}
			}
		}
		rows = kept
	} else if k, ok := params["key"]; ok && k != nil {
		var kept []vrow
		for _, r := range rows {
			if cmp(r.Key, k) == 0 {
				kept = append(kept, r)
			}
		}
		rows = kept
	} else {
		start, hasStart := params["startkey"]
		end, hasEnd := params["endkey"]
		incl := true
		if v, ok := params["inclusive_end"].(bool); ok {
			incl = v
		}
		var kept []vrow
		for _, r := range rows {
			if hasStart && start != nil {
				c := cmp(r.Key, start)
				if (!desc && c < 0) || (desc && c > 0) {
					continue
				}
			}
			if hasEnd && end != nil {
				c := cmp(r.Key, end)
				if (!desc && (c > 0 || (c == 0 && !incl))) || (desc && (c < 0 || (c == 0 && !incl))) {
					continue
				}
			}
			kept = append(kept, r)
		}
		rows = kept
	}
	if lim, ok := params["limit"]; ok {
		n := int(lim.(float64))
		if n < len(rows) {
			rows = rows[:n]
		}
	}
	reduce := vd.Reduce != ""
	if v, ok := params["reduce"].(bool); ok && !v {
		reduce = false
	}
	if reduce && len(rows) > 0 {
		group, _ := params["group"].(bool)
		level := -1
		if group {
			level = 0
		} else if gl, ok := params["group_level"]; ok {
			level = int(gl.(float64))
		}
		groupKey := func(k any) any {
			if level > 0 {
				if arr, ok := k.([]any); ok && len(arr) >= level {
					return arr[:level]
				}
			}
			return k
		}
		red := func(rs []vrow, key any) vrow {
			if vd.Reduce == "_count" {
				return vrow{Key: key, Value: float64(len(rs))}
			}
			t := 0.0
			for _, r := range rs {
				if f, ok := r.Value.(float64); ok {
					t += f
				}
			}
			return vrow{Key: key, Value: t}
		}
		if level < 0 {
			rows = []vrow{red(rows, nil)}
		} else {
			var out []vrow
			cur := []vrow{rows[0]}
			for _, r := range rows[1:] {
				if cmp(groupKey(r.Key), groupKey(cur[0].Key)) == 0 {
					cur = append(cur, r)
				} else {
					out = append(out, red(cur, groupKey(cur[0].Key)))
					cur = []vrow{r}
				}
			}
			out = append(out, red(cur, groupKey(cur[0].Key)))
			rows = out
		}
	}
	return rows, reduce
}

func rowsOf(res sgbucket.ViewResult) []vrow {
	var out []vrow
	for _, r := range res.Rows {
		out = append(out, vrow{ID: r.ID, Key: r.Key, Value: r.Value})
	}
	return out
}

func showRows(rs []vrow) string {
	var b strings.Builder
	b.WriteString("[")
	for i, r := range rs {
		if i > 0 {
			b.WriteString(" ")
		}
		fmt.Fprintf(&b, "%s:%s=%s", r.ID, canonKey(r.Key), canonKey(r.Value))
	}
	b.WriteString("]")
	return b.String()
}

// sameRows compares in order; rows with equal (key, id) may come in any relative order.
func sameRows(got, want []vrow, ordered bool) bool {
	if !ordered {
		// `keys` queries: sg-bucket's post-processing (a dependency, not under test) returns one row
		// per requested key. Required: every returned row is one of the expected rows, and every
		// key that has expected rows is represented.
		exp := map[string]int{}
		keysWanted := map[string]bool{}
		for _, r := range want {
			exp[r.ID+"|"+canonKey(r.Key)+"|"+canonKey(r.Value)]++
			keysWanted[canonKey(r.Key)] = true
		}
		keysGot := map[string]bool{}
		for _, r := range got {
			k := r.ID + "|" + canonKey(r.Key) + "|" + canonKey(r.Value)
			if exp[k] == 0 {
				return false
			}
			exp[k]--
			keysGot[canonKey(r.Key)] = true
		}
		for k := range keysWanted {
			if !keysGot[k] {
				return false
			}
		}
		return true
	}
	if len(got) != len(want) {
		return false
	}
	norm := func(rs []vrow) []string {
		out := make([]string, len(rs))
		for i, r := range rs {
			out[i] = r.ID + "|" + canonKey(r.Key) + "|" + canonKey(r.Value)
		}
		return out
	}
	g, w := norm(got), norm(want)
	if !ordered {
		sort.Strings(g)
		sort.Strings(w)
		return strings.Join(g, "\n") == strings.Join(w, "\n")
	}
	// ordered by (key,id); sort only within runs of equal key+id
	gk := func(rs []vrow, i int) string { return rs[i].ID + "|" + canonKey(rs[i].Key) }
	for i := 0; i < len(got); {
		j := i
		for j < len(got) && gk(want, j) == gk(want, i) {
			j++
		}
		gs, ws := append([]string(nil), g[i:j]...), append([]string(nil), w[i:j]...)
		sort.Strings(gs)
		sort.Strings(ws)
		if strings.Join(gs, "\n") != strings.Join(ws, "\n") {
			return false
		}
		i = j
	}
	return true
}

func (e *e1) doView(op *Op) *Violation {
	c := e.collVia(op.Handle, op.Coll)
	var params map[string]any
	_ = json.Unmarshal([]byte(*op.Body), &params)
	vd, known := e.ddocsOf(op.Coll)[op.Key][op.Path]
	if _, gl := params["group_level"]; gl && known && vd.Fam != "F4" {
		return nil // group_level needs array keys (sg-bucket panics otherwise): only meaningful for F4
	}
	firedBefore := e.armFaults()
	res, err := c.View(context.Background(), op.Key, op.Path, params)
	vfs.ClearFaults()
	synctest.Wait()
	e.logf("#%d View(c%d %s/%s %s) -> %d rows err=%v", e.step, op.Coll, op.Key, op.Path, *op.Body, len(res.Rows), err != nil)
	if kind := e.faultFired(firedBefore); kind != "" && err != nil && ioFailure(&Res{Err: classify(err), ErrText: err.Error()}) {
		// the query (or the index update it started) was hit by an injected fault and said so: fine;
		// the next query must be right again
		e.probe("fault.view-failed:" + kind)
		return nil
	}
	if !known {
		if err == nil {
			return e.violate([]string{"C12"}, "view.missing", "step %d: querying the non-existent view %s/%s succeeded", e.step, op.Key, op.Path)
		}
		return nil
	}
	if err != nil {
		return e.violate([]string{"C12"}, "view.error", "step %d: View(%s/%s, %s) failed: %v", e.step, op.Key, op.Path, *op.Body, err)
	}
	want, reduced := e.expectedView(op.Coll, vd, params)
	got := rowsOf(res)
	_, isKeys := params["keys"]
	if !sameRows(got, want, !isKeys) {
		// documents written by AddRaw have an unspecified JSON flag: try the other reading
		unknownIsJSON = true
		alt, _ := e.expectedView(op.Coll, vd, params)
		unknownIsJSON = false
		if sameRows(got, alt, !isKeys) {
			want = alt
		}
	}
	if !sameRows(got, want, !isKeys) {
		// Known finding KF-C12-withmeta: documents whose current version was written by
		// SetWithMeta / DeleteWithMeta are not (re-)indexed. The mismatch is that finding iff it
		// disappears when exactly those documents' rows are left out on both sides.
		metaIDs := map[string]bool{}
		for id, d := range e.docs[op.Coll] {
			if d.Meta {
				metaIDs[id] = true
			}
		}
		if len(metaIDs) > 0 {
			_, limited := params["limit"]
			strip := func(rs []vrow) []vrow {
				var out []vrow
				for _, r := range rs {
					if !metaIDs[r.ID] {
						out = append(out, r)
					}
				}
				return out
			}
			if reduced || limited || sameRows(strip(got), strip(want), !isKeys) {
				e.res.Stats.NonTrivial = true
				return e.violate([]string{"C12"}, "view.rows.withmeta", "step %d: View(%s/%s = %s, params %s) returned %s; the map function applied to the current documents gives %s; the difference is confined to documents last written by SetWithMeta/DeleteWithMeta (%v)", e.step, op.Key, op.Path, vd.Fam, *op.Body, showRows(got), showRows(want), keysOfSet(metaIDs))
			}
		}
		tags := []string{"C12"}
		if !reduced {
			// a row that the map function emits for a document of ANOTHER collection (and not for this
			// collection's document of that id) has leaked across collections
			mine := map[string]bool{}
			for _, r := range want {
				mine[r.ID+"|"+canonKey(r.Key)+"|"+canonKey(r.Value)] = true
			}
			other := map[string]bool{}
			for oc, odocs := range e.docs {
				if oc == op.Coll {
					continue
				}
				for _, id := range keysOf(odocs, "") {
					for _, r := range evalMap(vd.Fam, id, odocs[id]) {
						other[r.ID+"|"+canonKey(r.Key)+"|"+canonKey(r.Value)] = true
					}
				}
			}
			for _, r := range got {
				if k := r.ID + "|" + canonKey(r.Key) + "|" + canonKey(r.Value); !mine[k] && other[k] {
					tags = append(tags, "C11")
					break
				}
			}
		}
		v := e.violate(tags, "view.rows", "step %d: View(%s/%s = %s reduce=%q, params %s) returned %s; the map function applied to the current documents gives %s", e.step, op.Key, op.Path, vd.Fam, vd.Reduce, *op.Body, showRows(got), showRows(want))
		e.res.Stats.NonTrivial = true
		return v
	}
	if len(want) > 0 {
		e.res.Stats.NonTrivial = true
		e.probe("view.nonempty")
	}
	// second oracle: a freshly created identical view (index built from scratch) agrees
	fresh := fmt.Sprintf("fresh%d", e.step)
	if err := c.PutDDoc(context.Background(), fresh, buildDDoc(map[string]string{"v": vd.Fam + ifelseS(vd.Reduce != "", ":"+vd.Reduce, "")})); err == nil {
		res2, err2 := c.View(context.Background(), fresh, "v", params)
		_ = c.DeleteDDoc(fresh)
		if err2 != nil {
			return e.violate([]string{"C12"}, "view.fresh-error", "step %d: querying a freshly created identical view failed: %v", e.step, err2)
		}
		if !sameRows(got, rowsOf(res2), !isKeys) {
			return e.violate([]string{"C12"}, "view.incremental", "step %d: the incrementally maintained view %s/%s returned %s but a freshly created identical view returns %s", e.step, op.Key, op.Path, showRows(got), showRows(rowsOf(res2)))
		}
	}
	// a second query without intervening writes returns the same
	res3, err3 := c.View(context.Background(), op.Key, op.Path, params)
	if err3 != nil || !sameRows(got, rowsOf(res3), !isKeys) {
		return e.violate([]string{"C12"}, "view.unstable", "step %d: repeating the view query without any write in between returned %s, then %s (err=%v)", e.step, showRows(got), showRows(rowsOf(res3)), err3)
	}
	return nil
}

// ---------------------------------------------------------------------------------------
// SQL queries (C19)
// ---------------------------------------------------------------------------------------

var queryFamily = map[string]string{
	"ids":    `SELECT json_quote(id) AS id FROM $_keyspace`,
	"idbody": `SELECT json_quote(id) AS id, json(body) AS body FROM $_keyspace`,
	"idge":   `SELECT json_quote(id) AS id FROM $_keyspace WHERE id >= $k`,
	"num":    `SELECT json_quote(id) AS id, body->'$.v' AS v FROM $_keyspace WHERE json_type(body, '$.v') IN ('integer', 'real') AND body->>'$.v' >= $min`,
	"str":    `SELECT json_quote(id) AS id FROM $_keyspace WHERE body->>'$.s' = $s`,
	"xattr":  `SELECT json_quote(id) AS id, xattrs->'$._sync' AS sync FROM $_keyspace WHERE xattrs->'$._sync' IS NOT NULL`,
	"count":  `SELECT count(*) AS n FROM $_keyspace`,
	"xnull":  `SELECT json_quote(id) AS id FROM $_keyspace WHERE xattrs IS NULL`,
	"like":   `SELECT json_quote(id) AS id FROM $_keyspace WHERE id LIKE $pat`,
	"idnum":  `SELECT json_quote(id) AS id FROM $_keyspace WHERE id = 'k' || $n`,
	"veq":    `SELECT json_quote(id) AS id FROM $_keyspace WHERE json_type(body, '$.v') = 'integer' AND body->>'$.v' = $n`,
	"xu1":    `SELECT json_quote(id) AS id, xattrs->'$.u1' AS u FROM $_keyspace WHERE xattrs->'$.u1' IS NOT NULL`,
	"cols":   `SELECT body->'$.s' AS s, body->'$.v' AS v, json_quote(id) AS id, body->'$.w' AS w FROM $_keyspace`,
}

func (e *e1) expectedQuery(coll int, kind string, args map[string]any) []string {
	var rows []string
	docs := e.docs[coll]
	n := 0
	for _, id := range keysOf(docs, "") {
		d := docs[id]
		if !d.HasBody {
			continue
		}
		n++
		doc, _ := jsonValue(d.Body).(map[string]any)
		switch kind {
		case "ids":
			rows = append(rows, canonKey(map[string]any{"id": id}))
		case "idbody":
			rows = append(rows, canonKey(map[string]any{"id": id, "body": jsonValue(d.Body)}))
		case "idge":
			if id >= args["k"].(string) {
				rows = append(rows, canonKey(map[string]any{"id": id}))
			}
		case "num":
			if v, ok := doc["v"].(float64); ok && v >= args["min"].(float64) {
				rows = append(rows, canonKey(map[string]any{"id": id, "v": v}))
			}
		case "str":
			if s, ok := doc["s"].(string); ok && s == args["s"].(string) {
				rows = append(rows, canonKey(map[string]any{"id": id}))
			}
		case "like":
			// SQLite's LIKE: % matches any run of characters, ASCII letters match regardless of case
			pat, _ := args["pat"].(string)
			if strings.HasSuffix(pat, "%") && strings.HasPrefix(strings.ToLower(id), strings.ToLower(strings.TrimSuffix(pat, "%"))) {
				rows = append(rows, canonKey(map[string]any{"id": id}))
			}
		case "idnum":
			if id == fmt.Sprintf("k%d", intArg(args["n"])) {
				rows = append(rows, canonKey(map[string]any{"id": id}))
			}
		case "veq":
			if v, ok := doc["v"].(float64); ok && v == float64(intArg(args["n"])) && v == float64(int64(v)) {
				rows = append(rows, canonKey(map[string]any{"id": id}))
			}
		case "cols":
			// several columns, some of them NULL for some documents: a NULL column is left out of the row
			row := map[string]any{"id": id}
			for _, c := range []string{"s", "v", "w"} {
				if v, ok := doc[c]; ok {
					row[c] = v
				}
			}
			rows = append(rows, canonKey(row))
		case "xnull":
			// a document without xattrs looks the same to a query whichever way it came to have none
			if len(d.X) == 0 {
				rows = append(rows, canonKey(map[string]any{"id": id}))
			}
		case "xu1":
			if s, ok := d.X["u1"]; ok {
				rows = append(rows, canonKey(map[string]any{"id": id, "u": jsonValue(s)}))
			}
		case "xattr":
			if s, ok := d.X["_sync"]; ok {
				rows = append(rows, canonKey(map[string]any{"id": id, "sync": jsonValue(s)}))
			}
		}
	}
	if kind == "count" {
		rows = []string{canonKey(map[string]any{"n": float64(n)})}
	}
	sort.Strings(rows)
	return rows
}

func (e *e1) doQuery(op *Op) *Violation {
	c := e.w.Colls[0][op.Coll].(*rosmar.Collection)
	var args map[string]any
	if op.Body != nil {
		_ = json.Unmarshal([]byte(*op.Body), &args)
	}
	if f, ok := args["n"].(float64); ok && (op.Path == "idnum" || op.Path == "veq") {
		args["n"] = int(f) // passed as a Go int, as callers do
	}
	stmt := queryFamily[op.Path]
	adhoc := op.Amt&1 == 0
	firedBefore := e.armFaults()
	iter, err := c.Query(sgbucket.SQLiteLanguage, stmt, args, sgbucket.RequestPlus, adhoc)
	vfs.ClearFaults()
	faultKind := e.faultFired(firedBefore)
	if faultKind != "" && err != nil && ioFailure(&Res{Err: classify(err), ErrText: err.Error()}) {
		e.probe("fault.query-failed:" + faultKind)
		return nil
	}
	if err != nil {
		return e.violate([]string{"C19"}, "query.error", "step %d: Query(%s) failed: %v", e.step, op.Path, err)
	}
	want := e.expectedQuery(op.Coll, op.Path, args)
	var got []string
	hold := op.WOpt == 1 && e.p.OnDisk
	first := true
	var kept [][]byte // NextBytes() results held on to until the iteration is over
	for {
		var row map[string]any
		if op.Amt&2 != 0 {
			b := iter.NextBytes()
			if b == nil {
				break
			}
			kept = append(kept, b)
		} else {
			if !iter.Next(context.Background(), &row) {
				break
			}
			got = append(got, canonKey(row))
		}
		if first && hold {
			// a write while the (streaming) iterator is open: it must still return its snapshot
			first = false
			hop := Op{Kind: "Set", Coll: op.Coll, Key: "zz-held", Body: strp(`{"v":999,"s":"held"}`)}
			ds, bucket, docs := e.target(&hop)
			d := docs[hop.Key]
			r := Exec(ds, bucket, &hop, nowUnix(), &e.ctx)
			out := Step(d, &hop, &r, e.env)
			if !out.OK {
				_ = iter.Close()
				return e.violate(out.Tags, "query.hold-write", "step %d: a write made while a query iterator was open failed: %s", e.step, out.Why)
			}
			docs[hop.Key] = out.Next
			if out.Next.Cas > e.maxCas {
				e.maxCas = out.Next.Cas
			}
			if out.Next.Cas > e.maxIssued {
				e.maxIssued = out.Next.Cas
			}
			e.probe("query.write-while-iterating")
		}
	}
	cerr := iter.Close()
	for _, b := range kept {
		var row map[string]any
		if json.Unmarshal(b, &row) != nil {
			return e.violate([]string{"C19"}, "query.rowbytes", "step %d: a row returned by NextBytes() is no longer valid JSON once the iteration has moved on: %q", e.step, b)
		}
		got = append(got, canonKey(row))
	}
	synctest.Wait()
	// drain the live feed index (the held write produced an event)
	for ci, f := range e.live {
		e.liveIdx[ci] = len(f.Snapshot())
	}
	sort.Strings(got)
	e.logf("#%d Query(c%d %s %v) -> %d rows", e.step, op.Coll, op.Path, args, len(got))
	if cerr != nil && faultKind != "" && ioFailure(&Res{Err: classify(cerr), ErrText: cerr.Error()}) {
		// (an in-memory bucket runs the statement inside Query and hands its error out when the iterator
		// is closed: the injected failure, reported where rosmar reports it)
		e.probe("fault.query-failed-at-close:" + faultKind)
		return nil
	}
	if cerr != nil {
		return e.violate([]string{"C19"}, "query.close", "step %d: the iterator of Query(%s) reported %v", e.step, op.Path, cerr)
	}
	if strings.Join(got, "\n") != strings.Join(want, "\n") {
		if hold {
			// the snapshot may or may not include the row written meanwhile
			alt := e.expectedQuery(op.Coll, op.Path, args)
			if strings.Join(got, "\n") == strings.Join(alt, "\n") {
				return nil
			}
		}
		tags := []string{"C19"}
		for oc := range e.docs {
			if oc != op.Coll && len(got) > 0 && strings.Join(got, "\n") == strings.Join(e.expectedQuery(oc, op.Path, args), "\n") {
				tags = append(tags, "C11") // these are another collection's documents
			}
		}
		return e.violate(tags, "query.rows", "step %d: Query(%s %v, adhoc=%v) on collection %d returned %v; evaluated over the key-value read-back of the collection it is %v", e.step, op.Path, args, adhoc, op.Coll, got, want)
	}
	if len(want) > 0 {
		e.res.Stats.NonTrivial = true
		e.probe("query.nonempty")
	}
	return nil
}

func intArg(v any) int64 {
	switch n := v.(type) {
	case int:
		return int64(n)
	case int64:
		return n
	case float64:
		return int64(n)
	}
	return 0
}

// doCreateIndex creates (or re-creates) an index on the collection: an index is an access path
// and must not change what any query returns afterwards.
func (e *e1) doCreateIndex(op *Op) *Violation {
	c := e.w.Colls[0][op.Coll].(*rosmar.Collection)
	name := fmt.Sprintf("ix%d_%d", op.Coll, op.Dur%3)
	expr := []string{"body->>'$.s'", "id", "body->>'$.v'"}[op.Dur%3]
	err := c.CreateIndex(name, expr, "")
	e.logf("#%d CreateIndex(c%d %s on %s) -> %v", e.step, op.Coll, name, expr, err != nil)
	if err != nil && err != sgbucket.ErrIndexExists {
		return e.violate([]string{"C19"}, "index.create", "step %d: CreateIndex(%s, %s) failed: %v", e.step, name, expr, err)
	}
	e.probe("index.created")
	return nil
}
