package sim

import (
	"crypto/sha1"
	"encoding/hex"
	"encoding/json"
	"fmt"
	"os"
	"sort"
	"strconv"
	"strings"
	"testing"
	"time"
)

// ---------------------------------------------------------------------------------------
// Worker entry point. The python driver (/verif/check) builds this package as a test
// binary and starts N worker processes, each with its own seed range:
//
//   VERIF_PROP=C01 VERIF_SEED_START=.. VERIF_SEED_COUNT=.. VERIF_BUDGET_S=.. VERIF_OUT=file
//   VERIF_STATUS=file  ./sim.test -test.run '^TestWorker$'
//
// or, to replay one file:   VERIF_REPLAY=path ./sim.test -test.run '^TestReplay$'
// ---------------------------------------------------------------------------------------

// engineFn generates and runs the program of one seed for one property.
type engineSpec struct {
	Name string
	Gen  func(prop string, seed uint64) *Program
	Run  func(t *testing.T, p *Program, withLog bool) *RunResult
}

var engines = map[string]engineSpec{
	"e1":  {Name: "e1", Gen: GenE1, Run: RunE1},
	"e2":  {Name: "e2", Gen: GenE2, Run: RunE2},
	"e13": {Name: "e13", Gen: GenE13, Run: RunE13},
	"e3":  {Name: "e3", Gen: GenE3, Run: RunE3},
	"e4":  {Name: "e4", Gen: GenE4, Run: RunE4},
}

// propEngines lists the engines whose runs decide a property, with weights.
var propEngines = map[string][]string{
	"C01": {"e1", "e1", "e2"}, "C02": {"e1", "e2"}, "C03": {"e2"}, "C04": {"e1", "e2"}, "C05": {"e1", "e1", "e2"}, "C06": {"e1", "e1", "e2"}, "C07": {"e1", "e1", "e2"},
	"C08": {"e1", "e2"}, "C09": {"e1", "e2"}, "C10": {"e3"}, "C11": {"e1", "e1", "e1", "e2"}, "C12": {"e1", "e1", "e1", "e2"}, "C13": {"e13", "e13", "e2"}, "C14": {"e1", "e1", "e2"}, "C15": {"e2"}, "C16": {"e2", "e2", "e13"}, "C17": {"e1", "e1", "e2"},
	"C18": {"e1", "e2"}, "C19": {"e1"}, "C20": {"e2"},
}

// backlogProps: properties one run in backlogEvery of which is a backlog run (engine E4: thousands of
// events pile up behind a stalled consumer; slow, so rare).
var backlogProps = map[string]bool{"C08": true, "C09": true, "C15": true, "C16": true, "C14": true}

const backlogEvery = 400

type ViolationRec struct {
	Seed      uint64     `json:"seed"`
	Engine    string     `json:"engine"`
	Violation *Violation `json:"violation"`
	Replay    string     `json:"replay"`
	MinOps    int        `json:"min_ops"`
	OrigOps   int        `json:"orig_ops"`
	Execs     int        `json:"minimise_execs"`
}

type WorkerOut struct {
	Prop          string            `json:"prop"`
	Runs          int               `json:"runs"`
	SeedFirst     uint64            `json:"seed_first"`
	SeedLast      uint64            `json:"seed_last"`
	Violations    []ViolationRec    `json:"violations"`
	Foreign       map[string]int    `json:"foreign"` // violations of other properties seen (run cut short)
	ForeignEx     map[string]string `json:"foreign_examples"`
	Troubles      []string          `json:"troubles"`
	Cells         map[string]int    `json:"cells"`
	Probes        map[string]int    `json:"probes"`
	Faults        map[string]int    `json:"faults"`
	Distinct      []string          `json:"distinct"`
	NonTrivial    []string          `json:"nontrivial"`
	Samples       []any             `json:"samples"`
	SimSeconds    float64           `json:"sim_seconds"`
	Ops           int               `json:"ops"`
	Steps         int               `json:"sched_steps"`
	Preempt       int               `json:"preemptions"`
	WallS         float64           `json:"wall_s"`
	ByEngine      map[string]int    `json:"by_engine"`
	Done          bool              `json:"done"`
	KnownSeen     map[string]int    `json:"known_seen"`
	CrashPoints   int               `json:"crash_points"`
	KnownExamples []ViolationRec    `json:"known_examples"`
}

func envInt(name string, def int64) int64 {
	if v := os.Getenv(name); v != "" {
		n, err := strconv.ParseInt(v, 10, 64)
		if err == nil {
			return n
		}
	}
	return def
}

func hashOf(v any) string {
	b, _ := json.Marshal(v)
	h := sha1.Sum(b)
	return hex.EncodeToString(h[:8])
}

func writeJSONAtomic(path string, v any) {
	b, _ := json.Marshal(v)
	tmp := path + ".tmp"
	_ = os.WriteFile(tmp, b, 0644)
	_ = os.Rename(tmp, path)
}

// seedFor derives the seed of run i of a batch: results do not depend on the worker count.
func seedFor(base uint64, i uint64) uint64 {
	z := base*0x9E3779B97F4A7C15 + i*0xBF58476D1CE4E5B9 + 0x94D049BB133111EB
	z = (z ^ (z >> 30)) * 0xBF58476D1CE4E5B9
	z = (z ^ (z >> 27)) * 0x94D049BB133111EB
	return (z ^ (z >> 31)) >> 1
}

func TestWorker(t *testing.T) {
	prop := os.Getenv("VERIF_PROP")
	if prop == "" {
		t.Skip("not started by the driver")
	}
	base := uint64(envInt("VERIF_SEED", 1))
	first := uint64(envInt("VERIF_INDEX_START", 0))
	stride := uint64(envInt("VERIF_INDEX_STRIDE", 1))
	maxRuns := envInt("VERIF_MAX_RUNS", 1<<40)
	budget := time.Duration(envInt("VERIF_BUDGET_S", 30)) * time.Second
	outPath := os.Getenv("VERIF_OUT")
	statusPath := os.Getenv("VERIF_STATUS")
	replayDir := os.Getenv("VERIF_REPLAY_DIR")
	engs := propEngines[prop]
	if len(engs) == 0 {
		t.Fatalf("no engine for %s", prop)
	}
	knownOracles := map[string]bool{}
	for _, o := range strings.Split(os.Getenv("VERIF_KNOWN_ORACLES"), ",") {
		if o != "" {
			knownOracles[o] = true
		}
	}
	out := &WorkerOut{KnownSeen: map[string]int{}, Prop: prop, Foreign: map[string]int{}, ForeignEx: map[string]string{}, Cells: map[string]int{}, Probes: map[string]int{}, Faults: map[string]int{}, ByEngine: map[string]int{}}
	distinct := map[string]bool{}
	nontrivial := map[string]bool{}
	start := time.Now()
	lastFlush := start
	flush := func(done bool) {
		out.Done = done
		out.WallS = time.Since(start).Seconds()
		out.Distinct = keysOfSet(distinct)
		out.NonTrivial = keysOfSet(nontrivial)
		if outPath != "" {
			writeJSONAtomic(outPath, out)
		}
	}
	for i := uint64(0); int64(i) < maxRuns; i++ {
		if time.Since(start) > budget {
			break
		}
		idx := first + i*stride
		seed := seedFor(base, idx)
		eng := engines[engs[int(idx)%len(engs)]]
		every := uint64(backlogEvery)
		if prop == "C14" {
			every = 40 // (its runs of this engine - overdue expiries in a row - take milliseconds)
		}
		if backlogProps[prop] && idx%every == every-1 {
			eng = engines["e4"]
		}
		if statusPath != "" {
			_ = os.WriteFile(statusPath, []byte(fmt.Sprintf("%d %d %s\n", idx, seed, eng.Name)), 0644)
		}
		prog := eng.Gen(prop, seed)
		res := eng.Run(t, prog, false)
		out.Runs++
		out.ByEngine[eng.Name]++
		if out.Runs == 1 {
			out.SeedFirst = seed
		}
		out.SeedLast = seed
		h := hashOf(prog)
		distinct[h] = true
		if res.Stats.NonTrivial {
			nontrivial[h] = true
		}
		for k, v := range res.Stats.Cells {
			out.Cells[k] += v
		}
		for k, v := range res.Stats.Probes {
			out.Probes[k] += v
		}
		out.CrashPoints += res.Stats.CrashPoints
		for k, v := range res.Stats.Faults {
			out.Faults[k] += v
		}
		out.SimSeconds += res.Stats.SimSeconds
		out.Ops += res.Stats.Ops
		if len(out.Samples) < 3 && res.Stats.NonTrivial {
			out.Samples = append(out.Samples, sampleOf(prog))
		}
		if res.Trouble != "" {
			out.Troubles = append(out.Troubles, fmt.Sprintf("seed %d: %s", seed, res.Trouble))
			if len(out.Troubles) > 20 {
				break
			}
			continue
		}
		if v := res.Violation; v != nil {
			if mine := res.For(prop, ""); mine != nil {
				v = mine // several oracles may have fired: this property's own one counts here
			}
			if v.Has(prop) && knownOracles[v.Oracle] {
				// a recorded finding; the run may ALSO have met something that is not recorded
				for _, o := range res.All {
					if o != v && o.Has(prop) && !knownOracles[o.Oracle] {
						out.KnownSeen[v.Oracle]++
						v = o
						break
					}
				}
			}
			if v.Has(prop) && knownOracles[v.Oracle] {
				// a recorded, unrepaired defect: count it, keep one minimised example, carry on
				out.KnownSeen[v.Oracle]++
				if out.KnownSeen[v.Oracle] == 1 {
					rec := minimiseAndRecord(t, prop, eng, prog, v, seed, replayDir)
					out.KnownExamples = append(out.KnownExamples, rec)
				}
			} else if v.Has(prop) {
				rec := minimiseAndRecord(t, prop, eng, prog, v, seed, replayDir)
				out.Violations = append(out.Violations, rec)
				if len(out.Violations) >= 12 {
					break
				}
			} else {
				key := strings.Join(v.Tags, "+") + ":" + v.Oracle
				out.Foreign[key]++
				if _, ok := out.ForeignEx[key]; !ok {
					out.ForeignEx[key] = fmt.Sprintf("seed %d: %s", seed, v.Msg)
				}
			}
			if res.For(prop, "") != nil {
				for _, o := range res.All {
					if !o.Has(prop) {
						out.Foreign[strings.Join(o.Tags, "+")+":"+o.Oracle]++
					}
				}
			}
		}
		if time.Since(lastFlush) > 2*time.Second {
			flush(false)
			lastFlush = time.Now()
		}
	}
	flush(true)
}

func keysOfSet(m map[string]bool) []string {
	ks := make([]string, 0, len(m))
	for k := range m {
		ks = append(ks, k)
	}
	sort.Strings(ks)
	return ks
}

func sampleOf(p *Program) any {
	var ops []string
	for _, o := range p.Ops {
		ops = append(ops, o.String())
	}
	return map[string]any{"engine": p.Engine, "seed": p.Seed, "ondisk": p.OnDisk, "collections": p.NColl, "maxdoc": p.MaxDoc, "ops": ops}
}

// ---------------------------------------------------------------------------------------
// Minimisation and replay files
// ---------------------------------------------------------------------------------------

type ReplayFile struct {
	Property  string     `json:"property"`
	Engine    string     `json:"engine"`
	Seed      uint64     `json:"seed"`
	Program   *Program   `json:"program"`
	Violation *Violation `json:"violation"`
	Trace     []string   `json:"trace"`
	Note      string     `json:"note"`
}

func sameClass(a, b *Violation, prop string) bool {
	return a != nil && b != nil && a.Oracle == b.Oracle && b.Has(prop)
}

func cloneProgram(p *Program) *Program {
	b, _ := json.Marshal(p)
	var q Program
	_ = json.Unmarshal(b, &q)
	return &q
}

func minimiseAndRecord(t *testing.T, prop string, eng engineSpec, prog *Program, v *Violation, seed uint64, dir string) ViolationRec {
	rec := ViolationRec{Seed: seed, Engine: eng.Name, Violation: v, OrigOps: progSize(prog)}
	best := cloneProgram(prog)
	bestV := v
	execs := 0
	try := func(cand *Program) bool {
		if execs >= 300 {
			return false
		}
		execs++
		r := eng.Run(t, cloneProgram(cand), false)
		if same := r.For(prop, v.Oracle); r.Trouble == "" && same != nil {
			best, bestV = cand, same
			return true
		}
		return false
	}
	if best.Engine == "e3" {
		// every candidate is a full crash-point enumeration: only try dropping single operations
		if res0 := eng.Run(t, cloneProgram(best), false); res0.Violation != nil {
			best.CrashAt, best.Torn = res0.CrashAt, res0.Torn
		}
		for oi := 0; oi < len(best.Ops) && execs < 24; oi++ {
			c := cloneProgram(best)
			c.CrashAt, c.Torn = -1, false
			c.Ops = append(append([]Op(nil), c.Ops[:oi]...), c.Ops[oi+1:]...)
			if len(c.Ops) == 0 {
				continue
			}
			execs++
			r := eng.Run(t, cloneProgram(c), false)
			if same := r.For(prop, v.Oracle); r.Trouble == "" && same != nil {
				c.CrashAt, c.Torn = r.CrashAt, r.Torn // pin the crash point for the replay
				best, bestV = c, same
				oi--
			}
		}
	} else if best.Engine == "e2" {
		// concurrent programs: drop tasks, operations, setup steps, feeds, handles; the schedule is
		// re-derived from the same schedule seed, and a candidate is kept only if the same oracle fires
		progress := true
		for progress && execs < 300 {
			progress = false
			for ti := 0; ti < len(best.Tasks) && len(best.Tasks) > 1; ti++ {
				c := cloneProgram(best)
				c.Tasks = append(append([][]Op(nil), c.Tasks[:ti]...), c.Tasks[ti+1:]...)
				if try(c) {
					progress = true
					ti--
				}
			}
			for ti := 0; ti < len(best.Tasks); ti++ {
				for oi := 0; oi < len(best.Tasks[ti]); oi++ {
					c := cloneProgram(best)
					c.Tasks[ti] = append(append([]Op(nil), c.Tasks[ti][:oi]...), c.Tasks[ti][oi+1:]...)
					if try(c) {
						progress = true
						oi--
					}
				}
			}
			for si := 0; si < len(best.Setup); si++ {
				c := cloneProgram(best)
				c.Setup = append(append([]Op(nil), c.Setup[:si]...), c.Setup[si+1:]...)
				if try(c) {
					progress = true
					si--
				}
			}
			for fi := 0; fi < len(best.Feeds); fi++ {
				c := cloneProgram(best)
				c.Feeds = append(append([]FeedSpec(nil), c.Feeds[:fi]...), c.Feeds[fi+1:]...)
				if try(c) {
					progress = true
					fi--
				}
			}
			if best.NHandles > 1 {
				c := cloneProgram(best)
				c.NHandles = 1
				for ti := range c.Tasks {
					for oi := range c.Tasks[ti] {
						c.Tasks[ti][oi].Handle = 0
					}
				}
				for fi := range c.Feeds {
					c.Feeds[fi].Handle = 0
				}
				if try(c) {
					progress = true
				}
			}
			if best.Strategy != StratRTC || best.StratArg > 3 {
				c := cloneProgram(best)
				c.Strategy, c.StratArg = StratRTC, 3 // fewest preemptions
				if try(c) {
					progress = true
				}
			}
		}
	} else {
		// truncate after the violating step
		if bestV.Step+1 < len(best.Ops) {
			c := cloneProgram(best)
			c.Ops = c.Ops[:bestV.Step+1]
			try(c)
		}
		// delta debugging over operations
		for chunk := len(best.Ops) / 2; chunk >= 1; chunk /= 2 {
			for i := 0; i+chunk <= len(best.Ops); {
				c := cloneProgram(best)
				c.Ops = append(append([]Op(nil), c.Ops[:i]...), c.Ops[i+chunk:]...)
				if len(c.Ops) > 0 && try(c) {
					continue
				}
				i += chunk
			}
		}
		// simplify configuration
		if best.TwoBuckets {
			c := cloneProgram(best)
			c.TwoBuckets = false
			ok := true
			for _, o := range c.Ops {
				if o.Handle == 9 {
					ok = false
				}
			}
			if ok {
				try(c)
			}
		}
	}
	if best.OnDisk {
		c := cloneProgram(best)
		c.OnDisk = false
		try(c)
	}
	rec.MinOps, rec.Execs, rec.Violation = progSize(best), execs, bestV
	// final run with the trace, written as the replay file
	final := eng.Run(t, cloneProgram(best), true)
	fv := final.For(prop, bestV.Oracle)
	if fv == nil {
		fv = final.Violation
	}
	rf := ReplayFile{Property: prop, Engine: eng.Name, Seed: seed, Program: best, Violation: fv, Trace: final.Log,
		Note: "replay with: ./check " + prop + " --replay <this file>"}
	if dir == "" {
		dir = os.TempDir()
	}
	_ = os.MkdirAll(dir, 0755)
	path := fmt.Sprintf("%s/%s-%s-%d.json", dir, prop, strings.ReplaceAll(bestV.Oracle, ":", "_"), seed)
	b, _ := json.MarshalIndent(rf, "", " ")
	_ = os.WriteFile(path, b, 0644)
	rec.Replay = path
	return rec
}

// TestReplay re-executes a replay file and reports whether the same violation reproduces.
// Output (stdout): "REPLAY reproduced=<bool> oracle=<...> msg=<...>"
func TestReplay(t *testing.T) {
	path := os.Getenv("VERIF_REPLAY")
	if path == "" {
		t.Skip("no replay file")
	}
	b, err := os.ReadFile(path)
	if err != nil {
		t.Fatal(err)
	}
	var rf ReplayFile
	if err := json.Unmarshal(b, &rf); err != nil {
		t.Fatal(err)
	}
	eng, ok := engines[rf.Engine]
	if !ok {
		t.Fatalf("unknown engine %q", rf.Engine)
	}
	res := eng.Run(t, rf.Program, true)
	// same oracle at the same step (incidental wording, e.g. which of two error causes rosmar
	// names first, may differ between executions of rosmar itself)
	if rf.Violation != nil {
		if v := res.For(rf.Property, rf.Violation.Oracle); v != nil {
			res.Violation = v
		}
	}
	same := res.Violation != nil && rf.Violation != nil && res.Violation.Oracle == rf.Violation.Oracle && res.Violation.Step == rf.Violation.Step
	out := map[string]any{"reproduced": same, "violation": res.Violation, "trouble": res.Trouble, "trace": res.Log}
	if p := os.Getenv("VERIF_OUT"); p != "" {
		writeJSONAtomic(p, out)
	}
	for _, l := range res.Log {
		fmt.Println("  " + l)
	}
	if res.Violation != nil {
		fmt.Printf("REPLAY reproduced=%v tags=%v oracle=%s\n  %s\n", same, res.Violation.Tags, res.Violation.Oracle, res.Violation.Msg)
	} else {
		fmt.Printf("REPLAY reproduced=false (no violation) trouble=%q\n", res.Trouble)
	}
}

func progSize(p *Program) int {
	n := len(p.Ops) + len(p.Setup)
	for _, t := range p.Tasks {
		n += len(t)
	}
	return n
}

// TestSeedReplay re-generates the program of one (property, engine, seed) in a fresh process, runs
// it unminimised, and, if this property is violated, writes a replay file. The driver uses it
// when a minimised replay does not reproduce (state that leaked between runs of one worker
// process can make the minimiser drop the operations that really matter).
func TestSeedReplay(t *testing.T) {
	prop := os.Getenv("SEED_REPLAY_PROP")
	if prop == "" {
		t.Skip()
	}
	seed, _ := strconv.ParseUint(os.Getenv("SEED_REPLAY_SEED"), 10, 64)
	eng := engines[os.Getenv("SEED_REPLAY_ENGINE")]
	prog := eng.Gen(prop, seed)
	res := eng.Run(t, prog, true)
	out := map[string]any{"reproduced": false}
	if v := res.For(prop, os.Getenv("SEED_REPLAY_ORACLE")); v != nil {
		if res.CrashAt != 0 || res.Torn {
			prog.CrashAt, prog.Torn = res.CrashAt, res.Torn
		}
		rf := ReplayFile{Property: prop, Engine: eng.Name, Seed: seed, Program: prog, Violation: v, Trace: res.Log,
			Note: "unminimised program of this seed (the minimised one did not reproduce in a fresh process); replay with: ./check " + prop + " --replay <this file>"}
		path := fmt.Sprintf("%s/%s-%s-%d-full.json", os.Getenv("VERIF_REPLAY_DIR"), prop, strings.ReplaceAll(v.Oracle, ":", "_"), seed)
		b, _ := json.MarshalIndent(rf, "", " ")
		_ = os.MkdirAll(os.Getenv("VERIF_REPLAY_DIR"), 0755)
		_ = os.WriteFile(path, b, 0644)
		out = map[string]any{"reproduced": true, "replay": path, "msg": v.Msg, "oracle": v.Oracle}
	}
	writeJSONAtomic(os.Getenv("VERIF_OUT"), out)
}
