package sim

import (
	"context"
	"fmt"
	"io"
	"os"
	"path/filepath"
	"sort"
	"strings"
	"testing"
	"testing/synctest"
	"time"

	sgbucket "github.com/couchbase/sg-bucket"
	"github.com/couchbaselabs/rosmar"

	"verifsim/vfs"
)

// ---------------------------------------------------------------------------------------
// E3: crash enumeration for on-disk buckets (C10). For one generated history every I/O
// boundary (every write, sync, truncate and delete SQLite issues through the VFS shim) after
// bucket creation is a crash point: the history is re-executed with the disk frozen from that
// boundary on (nothing the "dead" process does reaches the disk any more; optionally only the
// first half of the write at the boundary does: torn write), the directory is copied and
// opened as a new process, and its contents must equal the model after all acknowledged
// operations, with the single in-flight operation entirely applied or not at all.
// ---------------------------------------------------------------------------------------

type e3snap struct {
	docs  []map[string]Doc
	ddocs map[int]map[string]map[string]viewDef
	ncoll int // collections created so far
}

func cloneDocs(in []map[string]Doc) []map[string]Doc {
	out := make([]map[string]Doc, len(in))
	for i, m := range in {
		out[i] = map[string]Doc{}
		for k, d := range m {
			out[i][k] = d.clone()
		}
	}
	return out
}

func cloneDDocs(in map[int]map[string]map[string]viewDef) map[int]map[string]map[string]viewDef {
	out := map[int]map[string]map[string]viewDef{}
	for c, dd := range in {
		out[c] = map[string]map[string]viewDef{}
		for n, vs := range dd {
			out[c][n] = map[string]viewDef{}
			for vn, vd := range vs {
				out[c][n][vn] = vd
			}
		}
	}
	return out
}

type e3 struct {
	p      *Program
	res    *RunResult
	logOn  bool
	snaps  []e3snap // snaps[i] = state before op i; snaps[len] = final
	ordAt  []int64  // ordinal at the start of op i (dry run)
	ordEnd int64
	uuid   string
	trace  string
	names  map[string]bool
}

func (e *e3) logf(format string, args ...any) {
	if e.logOn {
		e.res.Log = append(e.res.Log, fmt.Sprintf(format, args...))
	}
}

func copyDir(src, dst string) error {
	if err := os.MkdirAll(dst, 0700); err != nil {
		return err
	}
	ents, err := os.ReadDir(src)
	if err != nil {
		return err
	}
	for _, ent := range ents {
		if ent.IsDir() {
			continue
		}
		in, err := os.Open(filepath.Join(src, ent.Name()))
		if err != nil {
			return err
		}
		out, err := os.Create(filepath.Join(dst, ent.Name()))
		if err != nil {
			in.Close()
			return err
		}
		_, err = io.Copy(out, in)
		in.Close()
		out.Close()
		if err != nil {
			return err
		}
	}
	return nil
}

// execution of the history up to a crash point (k < 0: no crash). Returns the index of the
// in-flight operation (-1: the freeze never triggered) and the directory holding the files.
type e3exec struct {
	dir           string
	inflight      int
	acked         int
	viol          *Violation
	trouble       string
	maxCas        uint64
	uuid          string
	ackedInflight bool // the operation during which the disk froze nevertheless reported success
}

func (e *e3) execute(k int64, torn bool, record bool) (x e3exec) {
	p := e.p
	x.inflight = -1
	rosmar.VerifResetProcess()
	rosmar.VerifSetClock(nil)
	rosmar.MaxDocSize = 20 * 1024 * 1024
	vfs.Reset()
	root, err := os.MkdirTemp(scratchRoot(), "verif-crash-")
	if err != nil {
		x.trouble = err.Error()
		return
	}
	x.dir = root
	url := "rosmar://" + filepath.Join(root, "b")
	b, err := rosmar.OpenBucket(url, "b1", rosmar.CreateNew)
	if err != nil {
		x.trouble = "create: " + err.Error()
		return
	}
	colls := []sgbucket.DataStore{b.DefaultDataStore()}
	docs := []map[string]Doc{{}}
	ddocs := map[int]map[string]map[string]viewDef{}
	x.uuid, _ = b.UUID()
	if k >= 0 {
		vfs.SetFreeze(k, torn)
	}
	s := NewSched(NewTape(p.Seed))
	ctx := &OpCtx{}
	s.notes = func(name, detail string, n uint64, t *Task, gid uint64) {
		if gid == s.rootGID {
			ctx.note(name, n)
		}
	}
	s.Install()
	defer Uninstall()
	env := Env{}
	names := map[string]bool{}
	for i := range p.Ops {
		op := p.Ops[i]
		if record {
			e.snaps = append(e.snaps, e3snap{docs: cloneDocs(docs), ddocs: cloneDDocs(ddocs), ncoll: len(colls)})
			e.ordAt = append(e.ordAt, vfs.Ordinal())
		}
		var stepErr string
		switch op.Kind {
		case "CreateColl":
			if len(colls) < 3 {
				ds, err := b.NamedDataStore(collNames[len(colls)])
				if err == nil {
					colls = append(colls, ds)
					docs = append(docs, map[string]Doc{})
				} else if !vfs.Frozen() {
					stepErr = "NamedDataStore failed: " + err.Error()
				}
			}
		case "DropColl":
			// always the collection created last, by name: the handle may never have opened it
			if len(colls) > 1 {
				c := len(colls) - 1
				err := b.DropDataStore(collNames[c])
				if err == nil {
					colls = colls[:c]
					docs = docs[:c]
					delete(ddocs, c)
				} else if !vfs.Frozen() {
					stepErr = "DropDataStore failed: " + err.Error()
				}
			}
		case "Reopen":
			// a clean close and a new handle in the same process: nothing is cached in the new handle
			b.Close(context.Background())
			synctest.Wait()
			if vfs.Frozen() {
				break
			}
			nb, err := rosmar.OpenBucket(url, "b1", rosmar.ReOpenExisting)
			if err != nil {
				if !vfs.Frozen() {
					stepErr = "reopen failed: " + err.Error()
				}
				break
			}
			b = nb
			colls[0] = b.DefaultDataStore()
			for i := 1; i < len(colls); i++ {
				colls[i] = nil
			}
		case "DelDDoc":
			c := op.Coll % len(colls)
			if colls[c] == nil {
				colls[c], _ = b.NamedDataStore(collNames[c])
			}
			if _, ok := ddocs[c][op.Key]; !ok {
				break
			}
			err := colls[c].(*rosmar.Collection).DeleteDDoc(op.Key)
			if err == nil {
				delete(ddocs[c], op.Key)
			} else if !vfs.Frozen() {
				stepErr = "DeleteDDoc failed: " + err.Error()
			}
		case "PutDDoc":
			c := op.Coll % len(colls)
			if colls[c] == nil {
				colls[c], _ = b.NamedDataStore(collNames[c])
			}
			err := colls[c].(*rosmar.Collection).PutDDoc(context.Background(), op.Key, buildDDoc(op.Xattrs))
			if err == nil {
				if ddocs[c] == nil {
					ddocs[c] = map[string]map[string]viewDef{}
				}
				views := map[string]viewDef{}
				for n, spec := range op.Xattrs {
					views[n] = parseViewSpec(spec)
				}
				ddocs[c][op.Key] = views
			} else if !vfs.Frozen() {
				stepErr = "PutDDoc failed: " + err.Error()
			}
		case "Purge":
			r := Exec(nil, b, &op, nowUnix(), ctx)
			if r.Err == "" {
				for _, m := range docs {
					for k, d := range m {
						if d.Exists && !d.HasBody {
							delete(m, k)
						}
					}
				}
			} else if !vfs.Frozen() {
				stepErr = "PurgeTombstones failed: " + r.ErrText
			}
		default:
			op.Coll = op.Coll % len(colls)
			if colls[op.Coll] == nil {
				colls[op.Coll], _ = b.NamedDataStore(collNames[op.Coll])
			}
			d := docs[op.Coll][op.Key]
			switch op.CasMode {
			case "cur":
				op.CasArg = d.Cas
				if !d.Exists {
					op.CasArg = 0
				}
			case "stale", "bogus":
				op.CasArg = 777
			default:
				op.CasArg = 0
			}
			if op.Kind == "SetWithMeta" || op.Kind == "DeleteWithMeta" {
				op.NewCas = x.maxCas + 1 + op.Amt
			}
			for n := range op.Xattrs {
				names[n] = true
			}
			r := Exec(colls[op.Coll], b, &op, nowUnix(), ctx)
			if vfs.Frozen() {
				x.ackedInflight = r.Err == "" && r.Commits > 0 && !isReadKind(op.Kind)
				break
			}
			out := Step(d, &op, &r, env)
			if !out.OK {
				x.viol = &Violation{Tags: out.Tags, Oracle: "outcome:" + op.Kind, Msg: fmt.Sprintf("step %d %s on %s: %s", i, op, d, out.Why), Step: i}
				return
			}
			if out.Mutated {
				if out.Next.Exists {
					docs[op.Coll][op.Key] = out.Next
				} else {
					delete(docs[op.Coll], op.Key)
				}
				if out.Next.Cas > x.maxCas {
					x.maxCas = out.Next.Cas
				}
			}
			if r.NewCas > x.maxCas {
				x.maxCas = r.NewCas
			}
		}
		if vfs.Frozen() {
			x.inflight = i
			break
		}
		if stepErr != "" {
			x.viol = &Violation{Tags: []string{"C01"}, Oracle: "e3.step", Msg: fmt.Sprintf("step %d %s: %s", i, op, stepErr), Step: i}
			return
		}
		x.acked = i + 1
		time.Sleep(time.Millisecond)
	}
	if record {
		e.snaps = append(e.snaps, e3snap{docs: cloneDocs(docs), ddocs: cloneDDocs(ddocs), ncoll: len(colls)})
		e.ordEnd = vfs.Ordinal()
		e.trace = vfs.Trace()
		e.names = names
	}
	// the old "process" goes away; with the disk frozen nothing it does on the way out matters
	b.Close(context.Background())
	synctest.Wait()
	return
}

// verify opens the files left in dir (copied aside first) as a new process and compares.
func (e *e3) verify(x e3exec, k int64, torn bool) *Violation {
	vfs.SetFreeze(-1, false)
	vfs.Reset()
	// the new process knows nothing (registry, hybrid clock) and its wall clock is an hour EARLIER:
	// only the persisted high-water mark can keep new CAS values above the old ones
	rosmar.VerifResetProcess()
	rosmar.VerifSetClock(func() uint64 { return uint64(time.Now().UnixNano()) - 3600e9 })
	defer rosmar.VerifSetClock(nil)
	dst := x.dir + "-reopen"
	if err := copyDir(filepath.Join(x.dir, "b"), filepath.Join(dst, "b")); err != nil {
		e.res.Trouble = "copy: " + err.Error()
		return nil
	}
	defer os.RemoveAll(dst)
	where := fmt.Sprintf("crash at I/O boundary %d%s (in-flight operation: %s)", k, ifelseS(torn, " with a torn write", ""), e.opName(x.inflight))
	b, err := rosmar.OpenBucket("rosmar://"+filepath.Join(dst, "b"), "b1", rosmar.ReOpenExisting)
	if err != nil {
		var files []string
		ents, _ := os.ReadDir(filepath.Join(dst, "b"))
		for _, ent := range ents {
			if fi, e2 := ent.Info(); e2 == nil {
				files = append(files, fmt.Sprintf("%s(%d)", ent.Name(), fi.Size()))
			}
		}
		return &Violation{Tags: []string{"C10"}, Oracle: "crash.reopen", Msg: fmt.Sprintf("%s: the bucket cannot be reopened: %v (files left: %v)", where, err, files), Step: x.inflight}
	}
	defer func() {
		_ = b.CloseAndDelete(context.Background())
		synctest.Wait()
	}()
	if u, _ := b.UUID(); u != x.uuid {
		return &Violation{Tags: []string{"C10"}, Oracle: "crash.uuid", Msg: fmt.Sprintf("%s: the reopened bucket has UUID %q, it was created with %q", where, u, x.uuid), Step: x.inflight}
	}
	// candidate states: everything acknowledged, plus the in-flight operation applied or not
	cands := []e3snap{e.snaps[x.acked]}
	if x.inflight >= 0 && x.inflight+1 < len(e.snaps) {
		cands = append(cands, e.snaps[x.inflight+1])
		if x.ackedInflight {
			// the call returned success although the disk had stopped taking writes: what it
			// acknowledged must be there after the reopen
			cands = cands[1:]
			e.probe("crash.inflight-acknowledged")
		}
	}
	var whys []string
	for ci, cand := range cands {
		why := e.matches(b, cand)
		if why == "" {
			if ci == 1 {
				e.probe("crash.inflight-applied")
			} else if x.inflight >= 0 {
				e.probe("crash.inflight-not-applied")
			}
			// high-water mark: the next CAS is above everything in the state that survived
			ds := b.DefaultDataStore()
			var max uint64
			for _, m := range cand.docs {
				for _, d := range m {
					if d.Cas > max && !d.Meta {
						max = d.Cas
					}
				}
			}
			cas, err := ds.WriteCas("zz-after-crash", 0, 0, []byte(`{"after":1}`), 0)
			if err != nil {
				return &Violation{Tags: []string{"C10"}, Oracle: "crash.write-after", Msg: fmt.Sprintf("%s: the reopened bucket refuses a write: %v", where, err), Step: x.inflight}
			}
			if cas <= max {
				return &Violation{Tags: []string{"C10", "C04"}, Oracle: "crash.highwater", Msg: fmt.Sprintf("%s: the first write after reopening got CAS %d, not above the surviving documents' highest CAS %d", where, cas, max), Step: x.inflight}
			}
			// pending expirations survive: close, stay down until every deadline has passed, reopen,
			// and shortly afterwards everything that had an expiry must be gone
			var latest uint32
			type ck struct {
				c int
				k string
			}
			var due []ck
			for c, m := range cand.docs {
				for _, k := range keysOf(m, "") {
					if d := m[k]; d.HasBody && d.Exp != 0 && !d.ExpAny {
						due = append(due, ck{c, k})
						if d.Exp > latest {
							latest = d.Exp
						}
					}
				}
			}
			if len(due) > 0 && (e.p.Seed+uint64(k))%4 == 0 { // (a quarter of the crash points: it costs a reopen)
				b.Close(context.Background())
				synctest.Wait()
				rosmar.VerifResetProcess()
				if now := nowUnix(); latest+3 > now {
					time.Sleep(time.Duration(latest+3-now) * time.Second)
				}
				b2, err := rosmar.OpenBucket("rosmar://"+filepath.Join(dst, "b"), "b1", rosmar.ReOpenExisting)
				if err != nil {
					return &Violation{Tags: []string{"C10"}, Oracle: "crash.reopen2", Msg: fmt.Sprintf("%s: the bucket cannot be reopened a second time: %v", where, err), Step: x.inflight}
				}
				b = b2 // (deleted by the deferred cleanup)
				time.Sleep(8 * time.Second)
				synctest.Wait()
				for _, d := range due {
					var ds sgbucket.DataStore = b2.DefaultDataStore()
					if d.c > 0 {
						ds, _ = b2.NamedDataStore(collNames[d.c])
					}
					if ds == nil {
						continue
					}
					if body, _, err := ds.GetRaw(d.k); err == nil {
						return &Violation{Tags: []string{"C10", "C14"}, Oracle: "crash.pending-expiry", Msg: fmt.Sprintf("%s: %q had expiry %d, the bucket was reopened after that time, and 8 s later the document is still readable (%q): the pending expiration did not survive the restart", where, d.k, cand.docs[d.c][d.k].Exp, body), Step: x.inflight}
					}
				}
				e.probe("crash.pending-expiry-checked")
			}
			return nil
		}
		whys = append(whys, why)
	}
	desc := "all acknowledged operations applied"
	if x.ackedInflight {
		desc = "all acknowledged operations applied, including the one that reported success while the disk had already stopped taking writes"
	}
	msg := fmt.Sprintf("%s: the reopened bucket matches neither '%s' (%s)", where, desc, whys[0])
	if len(whys) > 1 {
		msg += fmt.Sprintf(" nor 'the in-flight operation entirely applied as well' (%s)", whys[1])
	}
	return &Violation{Tags: []string{"C10"}, Oracle: "crash.state", Msg: msg, Step: x.inflight}
}

func (e *e3) opName(i int) string {
	if i < 0 || i >= len(e.p.Ops) {
		return "none"
	}
	return fmt.Sprintf("#%d %s", i, e.p.Ops[i])
}

// matches compares the reopened bucket with one candidate state; "" means equal.
func (e *e3) matches(b *rosmar.Bucket, cand e3snap) string {
	list, err := b.ListDataStores()
	if err != nil {
		return "ListDataStores: " + err.Error()
	}
	if len(list) != cand.ncoll {
		return fmt.Sprintf("%d collections, expected %d", len(list), cand.ncoll)
	}
	helper := &e1{names: e.names, res: &RunResult{}}
	keys := map[string]bool{}
	for _, op := range e.p.Ops {
		if op.Key != "" && op.Kind != "PutDDoc" && op.Kind != "DelDDoc" {
			keys[op.Key] = true
		}
	}
	var ks []string
	for k := range keys {
		ks = append(ks, k)
	}
	sort.Strings(ks)
	for c := 0; c < cand.ncoll; c++ {
		var ds sgbucket.DataStore
		if c == 0 {
			ds = b.DefaultDataStore()
		} else {
			ds, err = b.NamedDataStore(collNames[c])
			if err != nil {
				return fmt.Sprintf("collection %d: %v", c, err)
			}
		}
		docs := map[string]Doc{}
		for k, d := range cand.docs[c] {
			docs[k] = d
		}
		for _, k := range ks {
			if why, _, _ := helper.readKey(ds, b, docs, c, k); why != "" {
				return fmt.Sprintf("collection %d: %s", c, why)
			}
		}
		dd, err := ds.(*rosmar.Collection).GetDDocs()
		if err != nil {
			return "GetDDocs: " + err.Error()
		}
		want := cand.ddocs[c]
		if len(dd) != len(want) {
			return fmt.Sprintf("collection %d has %d design documents, expected %d", c, len(dd), len(want))
		}
		for name, views := range want {
			got, ok := dd[name]
			if !ok || len(got.Views) != len(views) {
				return fmt.Sprintf("design document %s of collection %d: %v, expected views %v", name, c, got.Views, views)
			}
			for vn, vd := range views {
				if got.Views[vn].Map != mapFamily[vd.Fam] || got.Views[vn].Reduce != vd.Reduce {
					return fmt.Sprintf("view %s/%s of collection %d differs", name, vn, c)
				}
			}
		}
	}
	return ""
}

func (e *e3) probe(name string) {
	if e.res.Stats.Probes == nil {
		e.res.Stats.Probes = map[string]int{}
	}
	e.res.Stats.Probes[name]++
}

// RunE3 enumerates the crash points of one history (or runs the single crash point a replay
// file names).
func RunE3(t *testing.T, p *Program, withLog bool) *RunResult {
	res := &RunResult{}
	res.Stats.Cells = map[string]int{}
	e := &e3{p: p, res: res, logOn: withLog}
	// dry run: the model after every operation and the I/O ordinals
	var dry e3exec
	bo := RunBubble(t, func() {
		dry = e.execute(-1, false, true)
		if dry.viol == nil && dry.trouble == "" {
			// a clean close and reopen must show the final state (and costs nothing extra)
			x := dry
			x.acked, x.inflight = len(p.Ops), -1
			if v := e.verify(x, -1, false); v != nil {
				v.Oracle = "clean." + v.Oracle
				res.Violation = v
			}
		}
	})
	if dry.dir != "" {
		os.RemoveAll(dry.dir)
	}
	if bo.Panic != "" {
		res.Trouble = "dry run panic: " + bo.Panic
		return res
	}
	if dry.trouble != "" {
		res.Trouble = dry.trouble
		return res
	}
	if dry.viol != nil {
		res.Violation = dry.viol
		return res
	}
	if res.Violation != nil {
		return res
	}
	first, last := e.ordAt[0], e.ordEnd
	res.Stats.Ops = len(p.Ops)
	e.logf("history of %d operations: I/O boundaries %d..%d (%s)", len(p.Ops), first, last, e.trace)
	type point struct {
		k    int64
		torn bool
	}
	var points []point
	if p.CrashAt >= 0 {
		points = []point{{int64(p.CrashAt), p.Torn}}
	} else {
		for k := first; k < last; k++ {
			points = append(points, point{k, false})
		}
		// torn variants of (a sample of) the writes
		tr := e.trace
		nt := 0
		for k := first; k < last && int(k)*2 < len(tr); k++ {
			if tr[int(k)*2] == 'W' && (uint64(k)%3 == p.Seed%3) && nt < 40 {
				points = append(points, point{k, true})
				nt++
			}
		}
	}
	for _, pt := range points {
		var x e3exec
		var v *Violation
		bo := RunBubble(t, func() {
			x = e.execute(pt.k, pt.torn, false)
			if x.viol == nil && x.trouble == "" {
				v = e.verify(x, pt.k, pt.torn)
			}
		})
		if x.dir != "" {
			os.RemoveAll(x.dir)
		}
		vfs.SetFreeze(-1, false)
		res.Stats.CrashPoints++
		if pt.torn {
			e.probe("crash.torn-write")
		}
		if x.inflight >= 0 {
			e.probe("crash.during:" + p.Ops[x.inflight].Kind)
			res.Stats.NonTrivial = true
		}
		if bo.Panic != "" {
			res.Trouble = fmt.Sprintf("crash point %d: panic: %s", pt.k, bo.Panic)
			return res
		}
		if x.trouble != "" {
			res.Trouble = x.trouble
			return res
		}
		if x.viol != nil {
			// a model mismatch before the crash point: the sequential checks own that
			res.Violation = x.viol
			return res
		}
		if v != nil {
			v.Msg = fmt.Sprintf("history %s; %s", historyOf(p), v.Msg)
			res.Violation = v
			res.CrashAt, res.Torn = int(pt.k), pt.torn
			return res
		}
		e.logf("crash at %d torn=%v: in-flight %s: ok", pt.k, pt.torn, e.opName(x.inflight))
	}
	return res
}

func historyOf(p *Program) string {
	var parts []string
	for _, o := range p.Ops {
		parts = append(parts, o.String())
	}
	return "[" + strings.Join(parts, "; ") + "]"
}

// GenE3 draws a short on-disk history for crash enumeration.
func GenE3(prop string, seed uint64) *Program {
	r := NewRng(seed ^ 0xC10C10)
	prof := Profile{Name: "C10", ExpPct: 25, MaxKeys: 3}
	g := &gen{r: r, p: prof, ncoll: 2}
	prog := &Program{Engine: "e3", Seed: seed, OnDisk: true, NColl: 1, CrashAt: -1}
	nk := 1 + r.Intn(3)
	for i := 0; i < nk; i++ {
		g.keys = append(g.keys, fmt.Sprintf("k%d", i+1))
	}
	w := weights{"Set": 8, "SetRaw": 2, "Add": 3, "WriteCas": 5, "Delete": 4, "Remove": 1, "Update": 3, "Incr": 3, "Touch": 2, "SetXattrs": 3, "UpdateXattrs": 2,
		"WriteWithXattrs": 5, "WriteTombstoneWithXattrs": 2, "WriteResurrectionWithXattrs": 2, "WriteUpdateWithXattrs": 3, "DeleteWithXattrs": 2, "DeleteSubDocPaths": 1,
		"RemoveXattrs": 1, "WriteSubDoc": 2, "SubdocInsert": 1, "SetWithMeta": 2, "DeleteWithMeta": 1, "Purge": 2, "CreateColl": 3, "PutDDoc": 3, "DropColl": 2, "Reopen": 2, "DelDDoc": 1}
	n := 3 + r.Intn(8)
	if r.Chance(20) {
		// a collection created and filled by one handle is dropped through a later handle that has
		// never opened it
		set := g.op("Set")
		set.Coll, set.ExpKind = 1, 0
		prog.Ops = append(prog.Ops, Op{Kind: "CreateColl"}, set)
		if r.Chance(50) { // the collection also has a design document, which must go with it - or stay with it
			dd := g.op("PutDDoc")
			dd.Coll = 1
			prog.Ops = append(prog.Ops, dd)
		}
		if r.Chance(70) {
			prog.Ops = append(prog.Ops, Op{Kind: "Reopen"})
		}
		if r.Chance(30) {
			prog.Ops = append(prog.Ops, g.op("Set"))
			prog.Ops[len(prog.Ops)-1].Coll = 0
		}
		prog.Ops = append(prog.Ops, Op{Kind: "DropColl"})
		n -= 2
	}
	for i := 0; i < n; i++ {
		kind := g.weighted(w)
		switch kind {
		case "CreateColl", "DropColl", "Reopen":
			prog.Ops = append(prog.Ops, Op{Kind: kind})
		case "DelDDoc":
			prog.Ops = append(prog.Ops, Op{Kind: kind, Key: fmt.Sprintf("dd%d", 1+r.Intn(2)), Coll: r.Intn(2)})
		default:
			op := g.op(kind)
			if op.ExpKind == 1 {
				op.ExpKind = 2
			}
			if op.ExpKind == 3 {
				op.ExpKind = 0
			}
			prog.Ops = append(prog.Ops, op)
		}
	}
	return prog
}
