package sim

import (
	"bytes"
	"fmt"
	"hash/fnv"
	"runtime"
	"sort"
	"strconv"
	"sync"
	"testing/synctest"
	"time"

	"github.com/couchbaselabs/rosmar"
	sqlite3 "github.com/mattn/go-sqlite3"
)

// ---------------------------------------------------------------------------------------
// Choice tape: the only source of nondeterminism of a run. Every decision of the scheduler
// and of the generators goes through Choose, which either replays a recorded value or draws
// from a splitmix64 PRNG seeded by the run's seed, and records what it returned.
// ---------------------------------------------------------------------------------------

type Tape struct {
	state  uint64
	replay []int // when non-nil, values are taken from here first
	pos    int
	Rec    []int // everything returned so far
}

func NewTape(seed uint64) *Tape { return &Tape{state: seed*0x9E3779B97F4A7C15 + 0x1234567} }

func ReplayTape(seed uint64, rec []int) *Tape {
	t := NewTape(seed)
	t.replay = rec
	return t
}

func (t *Tape) next() uint64 {
	t.state += 0x9E3779B97F4A7C15
	z := t.state
	z = (z ^ (z >> 30)) * 0xBF58476D1CE4E5B9
	z = (z ^ (z >> 27)) * 0x94D049BB133111EB
	return z ^ (z >> 31)
}

// Choose returns a value in [0,n).
func (t *Tape) Choose(n int) int {
	if n <= 1 {
		return 0
	}
	var v int
	if t.replay != nil && t.pos < len(t.replay) {
		v = t.replay[t.pos] % n
		if v < 0 {
			v = 0
		}
	} else {
		v = int(t.next() % uint64(n))
	}
	t.pos++
	t.Rec = append(t.Rec, v)
	return v
}

// Rng is a plain PRNG (not recorded) for program generation; generation happens before a
// run and its result (the explicit program) is what gets recorded.
type Rng struct{ s uint64 }

func NewRng(seed uint64) *Rng { return &Rng{s: seed*0xD1342543DE82EF95 + 0x9E3779B97F4A7C15} }
func (r *Rng) U64() uint64 {
	r.s += 0x9E3779B97F4A7C15
	z := r.s
	z = (z ^ (z >> 30)) * 0xBF58476D1CE4E5B9
	z = (z ^ (z >> 27)) * 0x94D049BB133111EB
	return z ^ (z >> 31)
}
func (r *Rng) Intn(n int) int {
	if n <= 1 {
		return 0
	}
	return int(r.U64() % uint64(n))
}
func (r *Rng) Bool() bool          { return r.U64()&1 == 1 }
func (r *Rng) Chance(pct int) bool { return r.Intn(100) < pct }

// ---------------------------------------------------------------------------------------
// Tasks and the scheduler
// ---------------------------------------------------------------------------------------

const (
	tsNew = iota
	tsParked
	tsRunning
	tsDone
)

type Task struct {
	Name    string
	Client  bool
	gid     uint64
	resume  chan struct{}
	state   int
	want    *sync.Mutex
	site    string
	fn      func()
	Panic   any       // recovered panic value of a client task
	PanicAt string    // stack of that panic
	prio    int       // PCT priority
	wakeAt  time.Time // parked in a simulated sleep until this instant
}

// Strategy kinds (chosen per run).
const (
	StratRandom  = "random"  // uniform over enabled tasks
	StratPCT     = "pct"     // priorities with d change points
	StratRTC     = "rtc"     // run to completion with k random preemptions
	StratBgLast  = "bglast"  // background tasks only when no client is enabled
	StratBgFirst = "bgfirst" // background tasks first
	StratStarve  = "starve"  // one task is not scheduled for the first n steps
	StratFair    = "fair"    // round robin (drain phase)
)

type SchedStats struct {
	Steps       int
	Preemptions int
	TimeAdvance int
	SimNanos    int64
	Deadlock    bool
	StepLimit   bool
}

type Sched struct {
	mu        sync.Mutex
	rootGID   uint64
	tasks     []*Task
	byGID     map[uint64]*Task
	parking   bool
	tape      *Tape
	strategy  string
	stratArg  int
	pctChange map[int]bool
	starved   string
	last      *Task
	bgSeq     map[string]int
	mutexes   map[*sync.Mutex]string
	Stats     SchedStats
	trace     []string // decision trace (task@site), for interleaving hashes and replay files
	traceOn   bool
	notes     func(name, detail string, n uint64, t *Task, gid uint64)
	onStep    func()
	start     time.Time
	MaxSteps  int
	Log       func(format string, args ...any)
	// Sites seen: reach probes
	SiteHits map[string]int
	// cooperative fault points: number of SQLITE_BUSY errors still to inject before COMMIT
	CommitBusy      int
	CommitBusyFired int
	BusyAt          map[int]bool // (concurrent programs) ordinals of the commit attempts that fail with BUSY
	backoffGID      uint64       // goroutine that received such a BUSY and has not made its next commit attempt yet
	commitAttempts  int
	onPoint         func(name, detail string) // called when a task passes a point hook (after its release)
}

func curGID() uint64 {
	var buf [64]byte
	n := runtime.Stack(buf[:], false)
	// "goroutine 123 ["
	b := buf[10:n]
	i := bytes.IndexByte(b, ' ')
	if i < 0 {
		return 0
	}
	id, _ := strconv.ParseUint(string(b[:i]), 10, 64)
	return id
}

func NewSched(tape *Tape) *Sched {
	s := &Sched{
		rootGID:  curGID(),
		byGID:    map[uint64]*Task{},
		tape:     tape,
		strategy: StratRandom,
		bgSeq:    map[string]int{},
		mutexes:  map[*sync.Mutex]string{},
		start:    time.Now(),
		MaxSteps: 4000,
		SiteHits: map[string]int{},
	}
	return s
}

// Install points rosmar's hooks at this scheduler. Must be undone with Uninstall.
func (s *Sched) Install() {
	rosmar.VerifLockHook = s.lockHook
	rosmar.VerifPointHook = s.pointHook
	rosmar.VerifNoteHook = s.noteHook
	rosmar.VerifFaultHook = s.faultHook
}

func Uninstall() {
	rosmar.VerifLockHook = nil
	rosmar.VerifPointHook = nil
	rosmar.VerifNoteHook = nil
	rosmar.VerifFaultHook = nil
}

func (s *Sched) SetParking(on bool) { s.mu.Lock(); s.parking = on; s.mu.Unlock() }

func (s *Sched) SetStrategy(kind string, arg int) {
	s.strategy, s.stratArg = kind, arg
	s.pctChange = nil
}

// Go registers a client task. It starts parked; the scheduler decides when it begins.
func (s *Sched) Go(name string, fn func()) *Task {
	t := &Task{Name: name, Client: true, resume: make(chan struct{}), state: tsNew, fn: fn, site: "start"}
	s.mu.Lock()
	s.tasks = append(s.tasks, t)
	s.mu.Unlock()
	go func() {
		gid := curGID()
		s.mu.Lock()
		t.gid = gid
		s.byGID[gid] = t
		t.state = tsParked
		s.mu.Unlock()
		<-t.resume
		s.mu.Lock()
		t.state = tsRunning
		s.mu.Unlock()
		defer func() {
			if r := recover(); r != nil {
				buf := make([]byte, 8192)
				n := runtime.Stack(buf, false)
				t.Panic = r
				t.PanicAt = string(buf[:n])
			}
			s.mu.Lock()
			t.state = tsDone
			delete(s.byGID, gid)
			s.mu.Unlock()
		}()
		fn()
	}()
	return t
}

// current returns the task of the calling goroutine, registering a background task on
// first contact. Returns nil for the scheduler's own goroutine.
func (s *Sched) current(site, detail string) *Task {
	gid := curGID()
	if gid == s.rootGID {
		return nil
	}
	s.mu.Lock()
	defer s.mu.Unlock()
	if t, ok := s.byGID[gid]; ok {
		return t
	}
	base := site
	if detail != "" {
		base += ":" + detail
	}
	s.bgSeq[base]++
	name := "bg/" + base
	if n := s.bgSeq[base]; n > 1 {
		name += "#" + strconv.Itoa(n)
	}
	t := &Task{Name: name, gid: gid, resume: make(chan struct{}), state: tsRunning}
	s.tasks = append(s.tasks, t)
	s.byGID[gid] = t
	return t
}

func (s *Sched) park(t *Task, m *sync.Mutex, site string) {
	s.mu.Lock()
	if !s.parking {
		s.mu.Unlock()
		return
	}
	t.want, t.site, t.state = m, site, tsParked
	s.SiteHits[site]++
	if m != nil {
		if _, ok := s.mutexes[m]; !ok {
			s.mutexes[m] = site
		}
	}
	s.mu.Unlock()
	<-t.resume
	s.mu.Lock()
	t.state = tsRunning
	t.want = nil
	s.mu.Unlock()
}

func (s *Sched) lockHook(m *sync.Mutex, site string) {
	s.mu.Lock()
	on := s.parking
	if _, ok := s.mutexes[m]; !ok {
		s.mutexes[m] = site
	}
	s.mu.Unlock()
	if !on {
		return
	}
	if t := s.current(site, ""); t != nil {
		s.park(t, m, site)
	}
}

func (s *Sched) pointHook(name, detail string) {
	s.mu.Lock()
	on := s.parking
	s.mu.Unlock()
	if !on {
		return
	}
	if t := s.current(name, detail); t != nil {
		s.park(t, nil, name)
		if s.onPoint != nil {
			s.onPoint(name, detail)
		}
	}
}

// faultHook is rosmar's cooperative fault point: it injects a retryable SQLITE_BUSY before COMMIT.
func (s *Sched) faultHook(name string) error {
	if name != "txn.commit" {
		return nil
	}
	s.mu.Lock()
	defer s.mu.Unlock()
	if s.CommitBusy > 0 {
		s.CommitBusy--
		s.CommitBusyFired++
		return sqlite3.Error{Code: sqlite3.ErrBusy}
	}
	// concurrent programs: the n-th commit attempt of the whole run fails (whoever makes it)
	s.commitAttempts++
	gid := curGID()
	if s.backoffGID == gid {
		s.backoffGID = 0 // the goroutine that was backing off has come back with its next attempt
	}
	if s.BusyAt[s.commitAttempts] {
		if s.backoffGID != 0 {
			// Another goroutine is inside rosmar's back-off sleep (a real time.Sleep on the fake
			// clock). A second sleeper started at the same simulated instant would wake at the same
			// instant and the two would race outside the scheduler's control (seen by the self-test:
			// two buckets, which of the two retries draws its CAS first). The fault is dropped.
			return nil
		}
		s.backoffGID = gid
		s.CommitBusyFired++
		return sqlite3.Error{Code: sqlite3.ErrBusy}
	}
	return nil
}

func (s *Sched) noteHook(name, detail string, n uint64) {
	if s.notes == nil {
		return
	}
	gid := curGID()
	s.mu.Lock()
	t := s.byGID[gid]
	s.mu.Unlock()
	s.notes(name, detail, n, t, gid)
}

// TaskDone marks a background goroutine as finished (called by nobody in rosmar; background
// tasks simply stop reaching hooks). Background tasks are therefore never "done"; the
// scheduler only looks at whether they are parked.

func tryFree(m *sync.Mutex) bool {
	if m.TryLock() {
		m.Unlock()
		return true
	}
	return false
}

type runVerdict struct {
	Deadlock  bool
	StepLimit bool
	Detail    string
}

// snapshot returns parked tasks sorted by name, and whether every client is done.
func (s *Sched) snapshot() (parked []*Task, clientsDone bool, nClientsLive int) {
	s.mu.Lock()
	defer s.mu.Unlock()
	clientsDone = true
	for _, t := range s.tasks {
		if t.state == tsParked {
			parked = append(parked, t)
		}
		if t.Client && t.state != tsDone {
			clientsDone = false
			nClientsLive++
		}
	}
	sort.Slice(parked, func(i, j int) bool { return parked[i].Name < parked[j].Name })
	return
}

func (s *Sched) enabledOf(parked []*Task) []*Task {
	var en []*Task
	now := time.Now()
	for _, t := range parked {
		if !t.wakeAt.IsZero() && now.Before(t.wakeAt) {
			continue // still asleep on the simulated clock
		}
		if t.want == nil || tryFree(t.want) {
			en = append(en, t)
		}
	}
	return en
}

func (s *Sched) describe(parked []*Task) string {
	var b bytes.Buffer
	for _, t := range parked {
		st := "free"
		if t.want != nil && !tryFree(t.want) {
			st = "HELD"
		}
		fmt.Fprintf(&b, "%s@%s(%s) ", t.Name, t.site, st)
	}
	return b.String()
}

// pick chooses among enabled tasks according to the strategy; all randomness via the tape.
func (s *Sched) pick(en []*Task) *Task {
	if len(en) == 1 {
		// still consume nothing: a forced move is not a choice
		return en[0]
	}
	// put the last-run task first so that choice 0 == "keep going" (used by minimisation)
	if s.last != nil {
		for i, t := range en {
			if t == s.last {
				copy(en[1:i+1], en[0:i])
				en[0] = t
				break
			}
		}
	}
	filter := func(pred func(*Task) bool) []*Task {
		var out []*Task
		for _, t := range en {
			if pred(t) {
				out = append(out, t)
			}
		}
		if len(out) == 0 {
			return en
		}
		return out
	}
	switch s.strategy {
	case StratBgLast:
		en = filter(func(t *Task) bool { return t.Client })
	case StratBgFirst:
		en = filter(func(t *Task) bool { return !t.Client })
	case StratStarve:
		if s.Stats.Steps < s.stratArg {
			if s.starved == "" {
				s.starved = en[s.tape.Choose(len(en))].Name
			}
			en = filter(func(t *Task) bool { return t.Name != s.starved })
		}
	case StratRTC:
		// keep running the last task unless a (rare) preemption is drawn
		if s.last != nil && en[0] == s.last {
			if s.tape.Choose(100) >= s.stratArg { // stratArg = preemption percent
				return en[0]
			}
		}
	case StratPCT:
		if s.pctChange == nil {
			s.pctChange = map[int]bool{}
			for i := 0; i < s.stratArg; i++ {
				s.pctChange[1+s.tape.Choose(60)] = true
			}
		}
		for _, t := range en {
			if t.prio == 0 {
				t.prio = 1000 + s.tape.Choose(1000)
			}
		}
		best := en[0]
		for _, t := range en {
			if t.prio > best.prio {
				best = t
			}
		}
		if s.pctChange[s.Stats.Steps] {
			best.prio = 1 + s.tape.Choose(100) // demote
		}
		return best
	case StratFair:
		// least recently run: rotate by step count
		return en[s.Stats.Steps%len(en)]
	}
	return en[s.tape.Choose(len(en))]
}

func (s *Sched) release(t *Task) {
	if s.last != nil && s.last != t && s.last.state == tsParked {
		s.Stats.Preemptions++
	}
	s.last = t
	s.Stats.Steps++
	if s.traceOn {
		s.trace = append(s.trace, t.Name+"@"+t.site)
	}
	t.resume <- struct{}{}
}

// Run drives the tasks until every client task has finished and no background task is
// left enabled (quiescence), or until a deadlock or the step limit. It must be called from
// the bubble's root goroutine.
func (s *Sched) Run() runVerdict {
	idleRounds := 0
	for {
		synctest.Wait()
		if s.onStep != nil {
			s.onStep()
		}
		parked, clientsDone, _ := s.snapshot()
		en := s.enabledOf(parked)
		if len(en) == 0 {
			if clientsDone && len(parked) == 0 {
				return runVerdict{}
			}
			// Nothing can move. Either something sleeps on the fake clock (transaction
			// back-off, a client's own sleep), or this is a deadlock.
			idleRounds++
			if idleRounds > 8 {
				if clientsDone && len(parked) == 0 {
					return runVerdict{}
				}
				s.Stats.Deadlock = true
				return runVerdict{Deadlock: true, Detail: s.describe(parked) + s.blockedClients()}
			}
			// jump to the earliest simulated wake-up if some task sleeps, else let a little time pass
			d := 3 * time.Second
			var earliest time.Time
			for _, t := range parked {
				if !t.wakeAt.IsZero() && (earliest.IsZero() || t.wakeAt.Before(earliest)) {
					earliest = t.wakeAt
				}
			}
			if !earliest.IsZero() {
				if dd := time.Until(earliest); dd > 0 {
					d = dd
				}
				idleRounds = 0
			}
			s.advance(d)
			continue
		}
		idleRounds = 0
		if s.Stats.Steps >= s.MaxSteps {
			s.Stats.StepLimit = true
			return runVerdict{StepLimit: true, Detail: s.describe(parked)}
		}
		s.release(s.pick(en))
	}
}

func (s *Sched) blockedClients() string {
	s.mu.Lock()
	defer s.mu.Unlock()
	var b bytes.Buffer
	for _, t := range s.tasks {
		if t.Client && t.state == tsRunning {
			fmt.Fprintf(&b, "%s(blocked,not parked) ", t.Name)
		}
	}
	return b.String()
}

// Drain runs enabled tasks round-robin (no randomness) until quiescence: the fair phase
// after which liveness-type oracles are evaluated.
func (s *Sched) Drain() runVerdict {
	old, oldArg := s.strategy, s.stratArg
	s.strategy = StratFair
	v := s.Run()
	s.strategy, s.stratArg = old, oldArg
	return v
}

// advance lets d of simulated time pass; fired timer callbacks start and park at their hook.
func (s *Sched) advance(d time.Duration) {
	s.Stats.TimeAdvance++
	s.Stats.SimNanos += int64(d)
	time.Sleep(d)
	synctest.Wait()
}

// Advance is the exported form for scenario code running on the root goroutine.
func (s *Sched) Advance(d time.Duration) { s.advance(d) }

// HeldMutexes returns the sites of tracked mutexes that are locked right now.
func (s *Sched) HeldMutexes() []string {
	s.mu.Lock()
	defer s.mu.Unlock()
	var out []string
	for m, site := range s.mutexes {
		if !tryFree(m) {
			out = append(out, site)
		}
	}
	sort.Strings(out)
	return out
}

func (s *Sched) TraceHash() uint64 {
	h := fnv.New64a()
	for _, e := range s.trace {
		h.Write([]byte(e))
		h.Write([]byte{0})
	}
	return h.Sum64()
}

func (s *Sched) Tasks() []*Task {
	s.mu.Lock()
	defer s.mu.Unlock()
	return append([]*Task(nil), s.tasks...)
}

// Sleep parks the calling client task for d of simulated time. Unlike time.Sleep, waking up is
// a scheduling decision: several tasks due at the same instant are released one at a time.
func (s *Sched) Sleep(d time.Duration) {
	s.mu.Lock()
	on := s.parking
	s.mu.Unlock()
	if !on {
		time.Sleep(d)
		return
	}
	t := s.current("sleep", "")
	if t == nil {
		time.Sleep(d)
		return
	}
	s.mu.Lock()
	t.wakeAt = time.Now().Add(d)
	s.mu.Unlock()
	s.park(t, nil, "sleep")
	s.mu.Lock()
	t.wakeAt = time.Time{}
	s.mu.Unlock()
}
