#!/bin/bash
# dev helper: run one worker for a property and summarise
. /verif/env.sh
prop=$1; secs=${2:-5}; seed=${3:-1}
mkdir -p /tmp/w
rm -rf /tmp/w/replays
VERIF_PROP=$prop VERIF_SEED=$seed VERIF_BUDGET_S=$secs VERIF_OUT=/tmp/w/out.json VERIF_STATUS=/tmp/w/status VERIF_REPLAY_DIR=/tmp/w/replays /verif/.build/sim.test -test.run '^TestWorker$' 2>&1 | tail -15
python3 - <<'PY'
import json
o=json.load(open('/tmp/w/out.json'))
print('runs',o['runs'],'wall',round(o['wall_s'],2),'ops',o['ops'],'done',o['done'])
o['violations']=o['violations'] or []; o['troubles']=o['troubles'] or []; print('violations',len(o['violations']))
for v in o['violations'][:12]: print(' ',v['seed'],v['engine'],v['violation']['tags'],v['violation']['oracle'],v['min_ops'],'/',v['orig_ops'],v['violation']['msg'][:400])
print('foreign',o['foreign'])
for k,v in o['foreign_examples'].items(): print('  ',k,v[:400])
print('troubles',o['troubles'][:5])
PY
