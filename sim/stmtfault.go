package sim

import (
	"sync/atomic"

	"github.com/couchbaselabs/rosmar"
	sqlite3 "github.com/mattn/go-sqlite3"
)

// Statement-level fault injection. Every SQLite connection rosmar opens gets an authorizer
// callback (through the guarded seam rosmar.VerifConnectHook). While a fault is armed, the n-th
// table access (read of a column, insert, update, delete) that SQLite asks the authorizer about is
// denied once: the statement being prepared fails with "not authorized", as a statement hit by a
// transient error (out of memory, interrupted, an unreadable page) would. Only statements issued by
// the goroutine that armed the fault count (SQLite calls the authorizer on the goroutine that
// prepares the statement). Which access is denied is decided by the program of the run, so the
// fault replays exactly.

var stmtFault struct {
	countdown atomic.Int64
	fired     atomic.Int64
	gid       atomic.Uint64 // the goroutine that armed the fault: only ITS statements count
}

func init() {
	rosmar.VerifConnectHook = func(conn *sqlite3.SQLiteConn) error {
		conn.RegisterAuthorizer(func(op int, _, _, _ string) int {
			switch op {
			case sqlite3.SQLITE_READ, sqlite3.SQLITE_INSERT, sqlite3.SQLITE_UPDATE, sqlite3.SQLITE_DELETE:
			default:
				return sqlite3.SQLITE_OK
			}
			if stmtFault.countdown.Load() <= 0 || stmtFault.gid.Load() != curGID() {
				// not armed, or a statement of somebody else (another client, a feed writing its checkpoint,
				// the expiry sweep - where rosmar treats any error as fatal and panics)
				return sqlite3.SQLITE_OK
			}
			if stmtFault.countdown.Add(-1) == 0 {
				stmtFault.fired.Add(1)
				return sqlite3.SQLITE_DENY
			}
			return sqlite3.SQLITE_OK
		})
		return nil
	}
}

// ArmStmtFault makes the n-th (1-based) table access from now on fail once.
func ArmStmtFault(n int) {
	stmtFault.gid.Store(curGID())
	stmtFault.countdown.Store(int64(n))
}

// DisarmStmtFault drops a fault that was not reached and reports how many have fired so far.
func DisarmStmtFault() int64 {
	stmtFault.countdown.Store(0)
	return stmtFault.fired.Load()
}
