package sim

import (
	"context"
	"encoding/json"
	"fmt"
	"sort"
	"strings"
	"testing/synctest"
	"time"

	sgbucket "github.com/couchbase/sg-bucket"
	"github.com/couchbaselabs/rosmar"
)

// finalDocs extracts, from the final read-back entries, the last CAS of every key that
// finally exists (live or tombstone), per collection.
func finalDocs(hist []*HistEntry) map[string]uint64 {
	out := map[string]uint64{}
	for _, h := range hist {
		if h.Task == -1 && h.Op.Kind == "GetWithXattrs" && h.Res.Err == "" && h.Res.Cas != 0 {
			out[fmt.Sprintf("%d/%s", h.Op.Coll, h.Op.Key)] = h.Res.Cas
		}
	}
	return out
}

func dataEvents(f *FeedLog) []ObsEvent {
	var out []ObsEvent
	for _, ev := range f.Snapshot() {
		if ev.Opcode == sgbucket.FeedOpMutation || ev.Opcode == sgbucket.FeedOpDeletion {
			out = append(out, ev)
		}
	}
	return out
}

// C09 (concurrent half): a feed started with backfill while writers are running must deliver
// the final version of every document, by backfill or live; duplicates are fine, loss is not.
func (e *e2) judgeBackfillRace(hist []*HistEntry) {
	final := finalDocs(hist)
	for _, id := range e.feedOrder {
		fs := e.feedSpec[id]
		if fs.Backfill == "" || fs.Dump {
			continue
		}
		f := e.feeds[id]
		evs := f.Snapshot()
		got := map[string]bool{}
		begin, end := -1, -1
		for i, ev := range evs {
			switch ev.Opcode {
			case sgbucket.FeedOpBeginBackfill:
				if begin >= 0 {
					e.violate([]string{"C09"}, "backfill.markers", "feed %s received two begin-backfill markers", id)
					return
				}
				begin = i
			case sgbucket.FeedOpEndBackfill:
				if end >= 0 || begin < 0 {
					e.violate([]string{"C09"}, "backfill.markers", "feed %s: end-backfill marker out of place", id)
					return
				}
				end = i
			default:
				got[fmt.Sprintf("%s/%d", ev.Key, ev.Cas)] = true
			}
		}
		if begin != 0 || end < 0 {
			e.violate([]string{"C09"}, "backfill.markers", "feed %s: backfill markers missing or not first (begin=%d end=%d of %d events)", id, begin, end, len(evs))
			return
		}
		for i := begin + 2; i < end; i++ {
			if evs[i].Cas < evs[i-1].Cas {
				e.violate([]string{"C09"}, "backfill.order", "feed %s: backfill delivered CAS %d after CAS %d", id, evs[i].Cas, evs[i-1].Cas)
				return
			}
		}
		var keys []string
		for ck := range final {
			keys = append(keys, ck)
		}
		sort.Strings(keys)
		for _, ck := range keys {
			var c int
			fmt.Sscanf(ck, "%d/", &c)
			k := ck[strings.Index(ck, "/")+1:]
			if c != fs.Coll && !fs.Bucket {
				continue
			}
			if !got[fmt.Sprintf("%s/%d", k, final[ck])] {
				e.violate([]string{"C09"}, "backfill.lost", "feed %s (backfill from 0, then live, started while writers were running) never delivered the final version of %q (CAS %d): neither the backfill nor the live stream carried it", id, k, final[ck])
				return
			}
		}
		e.probe("backfillrace.checked")
		if end-begin-1 < len(got) {
			e.probe("backfillrace.live-events-after-backfill")
		}
	}
}

// C15: taken together, the runs of a checkpointed feed deliver the final version of every
// document, and the checkpoint never exceeds what was delivered.
func (e *e2) judgeCheckpoint(hist []*HistEntry) {
	// final dump run of the same feed id, made by the root after everything is quiet
	e.mu.Lock()
	runs := 0
	var spec FeedSpec
	for _, id := range e.feedOrder {
		if e.feedSpec[id].Ckpt != "" {
			runs++
			spec = e.feedSpec[id]
		}
	}
	e.mu.Unlock()
	if runs == 0 {
		return
	}
	fin := spec
	fin.Run, fin.Dump, fin.Handle = 99, true, 0
	for e.closedHandles[fin.Handle] {
		fin.Handle++
	}
	f, err := e.startFeed(fin)
	if err != nil {
		e.violate([]string{"C15"}, "ckpt.final-start", "the final resume run of feed %s could not start: %v", spec.ID, err)
		return
	}
	synctest.Wait()
	if !f.IsDone() {
		e.violate([]string{"C15", "C16"}, "ckpt.final-done", "the final dump run of feed %s did not finish", spec.ID)
		return
	}
	ckKey := spec.Ckpt + ":" + spec.ID
	got := map[string]bool{}
	type de struct {
		cas  uint64
		step int
	}
	var delivered []de
	for _, id := range e.feedOrder {
		if e.feedSpec[id].Ckpt == "" {
			continue
		}
		for _, ev := range dataEvents(e.feeds[id]) {
			got[fmt.Sprintf("%s/%d", ev.Key, ev.Cas)] = true
			delivered = append(delivered, de{ev.Cas, ev.Step})
		}
	}
	for _, f := range e.failedStarts {
		for _, ev := range dataEvents(f) {
			got[fmt.Sprintf("%s/%d", ev.Key, ev.Cas)] = true
			delivered = append(delivered, de{ev.Cas, ev.Step})
		}
	}
	final := finalDocs(hist)
	var keys []string
	for ck := range final {
		keys = append(keys, ck)
	}
	sort.Strings(keys)
	for _, ck := range keys {
		var c int
		fmt.Sscanf(ck, "%d/", &c)
		k := ck[strings.Index(ck, "/")+1:]
		if (c != spec.Coll && !spec.Bucket) || k == ckKey {
			continue
		}
		if !got[fmt.Sprintf("%s/%d", k, final[ck])] {
			e.violate([]string{"C15"}, "ckpt.skipped", "over its %d runs (last one a resume-dump after quiescence) the checkpointed feed %s never delivered the final version of %q (CAS %d): a mutation was skipped", runs+1, spec.ID, k, final[ck])
			return
		}
	}
	// checkpoint documents read by the controller between runs
	for _, h := range hist {
		if h.Op.Kind != "GetRaw" || h.Op.Key != ckKey || h.Res.Err != "" {
			continue
		}
		var cp struct {
			LastSeq uint64 `json:"last_seq"`
		}
		if json.Unmarshal(h.Res.Body, &cp) != nil {
			continue
		}
		var max uint64
		for _, d := range delivered {
			if int64(d.step) < h.Ret && d.cas > max {
				max = d.cas
			}
		}
		if cp.LastSeq > max {
			e.violate([]string{"C15"}, "ckpt.overshoot", "the checkpoint of feed %s says last_seq=%d but the highest CAS its callback had received by then is %d", spec.ID, cp.LastSeq, max)
			return
		}
		e.probe("ckpt.checkpoint-read")
	}
	e.probe("ckpt.checked")
}

// C16: after the run, feeds that should have ended are done (once, no callback afterwards);
// feeds that should survive still receive a probe write made now.
func (e *e2) judgeTermination(hist []*HistEntry) {
	stopped := map[string]bool{}
	allClosed := true
	for hi := range e.w.Handles {
		if !e.closedHandles[hi] {
			allClosed = false
		}
	}
	for _, h := range hist {
		if h.Op.Kind == "StopFeed" && h.Done {
			stopped[h.Op.Feed.LogKey()] = true
		}
	}
	storeDown := e.deleted || (allClosed && e.p.OnDisk)
	// probe writes through a surviving handle
	e.probeCas = map[int]uint64{}
	if !allClosed {
		h := 0
		for e.closedHandles[h] {
			h++
		}
		ctx := &OpCtx{}
		e.mu.Lock()
		e.ctxs[e.s.rootGID] = ctx
		e.mu.Unlock()
		for c := 0; c < e.p.NColl; c++ {
			if e.dropped[c] {
				continue
			}
			op := Op{Kind: "Set", Coll: c, Key: "probe", Body: strp(`{"probe":1}`)}
			r := Exec(e.w.Colls[h][c], e.w.Handles[h], &op, nowUnix(), ctx)
			if r.Err != "" {
				e.violate([]string{"C16", "C13"}, "term.probe-write", "a write through the still open handle %d to collection %d failed after the run: %s", h, c, r.Err)
				return
			}
			e.probeCas[c] = r.NewCas
		}
		synctest.Wait()
	}
	for _, id := range e.feedOrder {
		fs := e.feedSpec[id]
		f := e.feeds[id]
		shouldEnd := storeDown || stopped[id] || fs.Dump || (!fs.Bucket && e.dropped[fs.Coll])
		if fs.Bucket {
			all := true
			for c := 0; c < e.p.NColl; c++ {
				if !e.dropped[c] {
					all = false
				}
			}
			shouldEnd = shouldEnd || all
		}
		if shouldEnd {
			if !f.IsDone() {
				why := "its terminator was closed"
				switch {
				case e.deleted:
					why = "the bucket was deleted"
				case storeDown:
					why = "the last handle of the on-disk bucket was closed"
				case fs.Dump:
					why = "it is a dump feed"
				case e.dropped[fs.Coll]:
					why = "its collection was dropped"
				}
				e.violate([]string{"C16"}, "term.not-ended", "feed %s (started through handle %d on collection %d) is still running although %s", id, fs.Handle, fs.Coll, why)
				return
			}
			if f.AfterDone > 0 {
				e.violate([]string{"C16"}, "term.callback-after-done", "feed %s invoked its callback after closing its done channel", id)
				return
			}
			if ts, ok := e.termSeq[fs.ID]; ok && stopped[id] && fs.Run == 0 {
				late := 0
				for _, ev := range f.Snapshot() {
					if int64(ev.Step) > ts+1 {
						late++
					}
				}
				if late > 0 {
					e.violate([]string{"C16"}, "term.callback-after-terminator", "feed %s: its terminator was closed and the close had been processed, yet its callback was invoked %d more time(s) (for events still queued)", id, late)
					return
				}
			}
			e.probe("term.ended-ok")
			continue
		}
		if allClosed {
			continue // in-memory store with no open handle: nothing can be written to probe it
		}
		if f.IsDone() {
			e.violate([]string{"C16"}, "term.ended-early", "feed %s (handle %d, collection %d) has ended although nothing that should end it happened (stopped feeds: %v, dropped collections: %v, closed handles: %v)", id, fs.Handle, fs.Coll, keysOfBool(stopped), e.dropped, e.closedHandles)
			return
		}
		got := map[uint64]bool{}
		for _, ev := range dataEvents(f) {
			got[ev.Cas] = true
		}
		for c, cas := range e.probeCas {
			if (fs.Bucket || fs.Coll == c) && !got[cas] {
				e.violate([]string{"C16", "C08"}, "term.starved", "feed %s (handle %d, collection %d) is still registered but did not receive a write made to collection %d after the run (dropped: %v, closed handles: %v, stopped feeds: %v)", id, fs.Handle, fs.Coll, c, e.dropped, e.closedHandles, keysOfBool(stopped))
				return
			}
		}
		e.probe("term.survivor-ok")
	}
}

func keysOfBool(m map[string]bool) []string {
	var ks []string
	for k := range m {
		ks = append(ks, k)
	}
	sort.Strings(ks)
	return ks
}

// afterShutdown runs once the store has been deleted: simulated time is moved past every
// deadline (a timer surviving the shutdown would fire now, into a closed database) and an
// unrelated bucket must still be usable (no process-wide lock left behind).
func (e *e2) afterShutdown() {
	time.Sleep(120 * time.Second)
	synctest.Wait()
	done := make(chan string, 1)
	go func() {
		b, err := rosmar.OpenBucket(rosmar.InMemoryURL, "probe-bucket", rosmar.CreateOrOpen)
		if err != nil {
			done <- "open: " + err.Error()
			return
		}
		ds := b.DefaultDataStore()
		if ds == nil {
			done <- "no default data store"
			return
		}
		if err := ds.Set("p", 0, nil, []byte(`{"p":1}`)); err != nil {
			done <- "set: " + err.Error()
			return
		}
		if _, _, err := ds.GetRaw("p"); err != nil {
			done <- "get: " + err.Error()
			return
		}
		_ = b.CloseAndDelete(context.Background())
		done <- ""
	}()
	synctest.Wait()
	select {
	case msg := <-done:
		if msg != "" {
			e.violate([]string{"C20"}, "shutdown.other-bucket", "after the run an unrelated in-memory bucket could not be used: %s", msg)
		}
	default:
		e.violate([]string{"C20"}, "shutdown.other-bucket-blocked", "after the run, opening and using an unrelated bucket blocks: a process-wide lock was left held")
	}
	if n := len(rosmar.GetBucketNames()); n != 0 && e.res.Violation == nil {
		e.violate([]string{"C13", "C20"}, "shutdown.registry", "after every bucket was deleted the registry still lists %v", rosmar.GetBucketNames())
	}
}

// C13 (concurrent half): opens and closes of an already created bucket race; every call through
// a handle between its open and its close must work, and once every handle is closed the
// reference count must be exactly used up: the on-disk database is closed and unregistered,
// and a reopen finds every acknowledged write.
func (e *e2) judgeOpenClose(hist []*HistEntry) {
	closed := map[int]bool{}
	want := map[string]string{}
	for _, h := range hist {
		if h.Task < 0 {
			continue
		}
		switch h.Op.Kind {
		case "OpenHandle":
			if h.Res.Err != "" {
				e.violate([]string{"C13"}, "openclose.open-failed", "OpenBucket of the existing bucket failed while other handles were being opened and closed: %s", h.Res.ErrText)
				return
			}
		case "Close":
			closed[h.Op.Handle] = true
		case "Set":
			if closed[h.Op.Handle] {
				continue
			}
			if h.Res.Err != "" {
				e.violate([]string{"C13"}, "openclose.open-handle-broken", "a write through handle %d, which its owner had opened and not yet closed, failed with %s (%s): opening or closing OTHER handles must not disable it", h.Op.Handle, h.Res.Err, h.Res.ErrText)
				return
			}
			want[h.Op.Key] = *h.Op.Body
		}
	}
	// close whatever is still open, then the store must be shut down exactly now
	for hi, b := range e.w.Handles {
		if !e.closedHandles[hi] {
			b.Close(context.Background())
			e.closedHandles[hi] = true
		}
	}
	synctest.Wait()
	if e.p.OnDisk {
		if n, ok := rosmar.VerifRegistryCounts()[e.w.Name]; ok {
			e.violate([]string{"C13"}, "openclose.refcount", "every handle of the on-disk bucket has been closed but the registry still counts %d open handle(s)", n)
			return
		}
		for _, n := range rosmar.GetBucketNames() {
			if n == e.w.Name {
				e.violate([]string{"C13"}, "openclose.refcount", "every handle of the on-disk bucket has been closed but it is still registered (its database was never closed)")
				return
			}
		}
	}
	mode := rosmar.OpenMode(rosmar.ReOpenExisting)
	if !e.p.OnDisk {
		mode = rosmar.CreateOrOpen
	}
	b, err := rosmar.OpenBucket(e.w.URL, e.w.Name, mode)
	if err != nil {
		e.violate([]string{"C13", "C10"}, "openclose.reopen", "reopening the bucket after all handles were closed failed: %v", err)
		return
	}
	e.w.Handles = append(e.w.Handles, b)
	e.w.Colls = append(e.w.Colls, []sgbucket.DataStore{b.DefaultDataStore()})
	ds := b.DefaultDataStore()
	for _, k := range sortedKeys(want) {
		got, _, err := ds.GetRaw(k)
		if err != nil || string(got) != want[k] {
			e.violate([]string{"C13"}, "openclose.data", "after closing every handle and reopening, %q reads %q (err=%v), expected %s", k, got, err, want[k])
			return
		}
	}
	e.probe("openclose.checked")
}

// C11 / C12 (concurrent): view queries race with design-document changes and writes in the same
// and in another collection. Every row a query of collection A returns must have been emitted by
// the queried map function for some version that document has had IN COLLECTION A (documents of
// the two collections carry disjoint values), and a non-stale query that began after every write
// had finished, on a design document nobody touched, must equal the map of the final documents.
func (e *e2) judgeViewRace(hist []*HistEntry) {
	// values every key has had per collection: v -> true
	had := make([]map[string]map[string]bool, e.p.NColl)
	for c := range had {
		had[c] = map[string]map[string]bool{}
		for k, d := range e.init[c] {
			had[c][k] = map[string]bool{vOf(d.Body): true}
		}
	}
	ddTouched := map[int]int64{} // collection -> earliest call of a design-document change
	var lastWrite int64
	for _, h := range hist {
		switch h.Op.Kind {
		case "PutDDoc", "DelDDoc":
			if h.Task >= 0 {
				if at, ok := ddTouched[h.Op.Coll]; !ok || h.Call < at {
					ddTouched[h.Op.Coll] = h.Call
				}
			}
		case "Set":
			if h.Task >= 0 && h.Op.Body != nil {
				if had[h.Op.Coll][h.Op.Key] == nil {
					had[h.Op.Coll][h.Op.Key] = map[string]bool{}
				}
				had[h.Op.Coll][h.Op.Key][vOf(*h.Op.Body)] = true // (counted even if it failed or is in flight)
				if h.Ret > lastWrite {
					lastWrite = h.Ret
				}
			}
		}
	}
	final := make([]map[string]string, e.p.NColl)
	for c := range final {
		final[c] = map[string]string{}
	}
	for _, h := range hist {
		if h.Task == -1 && h.Op.Kind == "GetRaw" && h.Res.Err == "" {
			final[h.Op.Coll][h.Op.Key] = vOf(string(h.Res.Body))
		}
	}
	for _, h := range hist {
		if h.Op.Kind != "View" || h.Task < 0 || h.Res.Err != "" {
			continue
		}
		c := h.Op.Coll
		for _, r := range h.Res.Rows {
			v := canonKey(r.Key)
			if !had[c][r.ID][v] {
				tags := []string{"C11", "C12"}
				other := ""
				for oc := range had {
					if oc != c && had[oc][r.ID][v] {
						other = fmt.Sprintf(" (it is what collection %d holds under that key)", oc)
					}
				}
				e.violate(tags, "view.foreign-row", "%s returned the row %s:%s, but the document %q of collection %d has never had that value%s", h, r.ID, v, r.ID, c, other)
				return
			}
		}
		if at, touched := ddTouched[c]; (!touched || h.Ret < at) && h.Call > lastWrite && !strings.Contains(*h.Op.Body, `"stale":"ok"`) {
			// quiescent, non-stale: exactly one row per document of the collection, with its final value
			got := map[string]string{}
			for _, r := range h.Res.Rows {
				if _, dup := got[r.ID]; dup {
					e.violate([]string{"C12"}, "view.duplicate-row", "%s returned two rows for document %q", h, r.ID)
					return
				}
				got[r.ID] = canonKey(r.Key)
			}
			for _, k := range sortedKeys(final[c]) {
				if v := final[c][k]; got[k] != v {
					e.violate([]string{"C12"}, "view.quiescent-rows", "%s ran after every write had finished, yet for document %q it returned %q where the document reads %s", h, k, got[k], v)
					return
				}
			}
			e.probe("viewrace.quiescent-checked")
		}
		e.probe("viewrace.query-checked")
	}
}

// vOf extracts the canonical form of the property v of a JSON body ("" if none).
func vOf(body string) string {
	var m map[string]any
	if json.Unmarshal([]byte(body), &m) != nil {
		return ""
	}
	if v, ok := m["v"]; ok {
		return canonKey(v)
	}
	return ""
}
