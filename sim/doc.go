// Package sim is the deterministic-simulation harness for rosmar (see /verif/DESIGN.md).
package sim
