package sim

import (
	"encoding/json"
	"fmt"
	"sort"

	sgbucket "github.com/couchbase/sg-bucket"
)

// ---------------------------------------------------------------------------------------
// Program generation. Everything is drawn from one Rng seeded by the run's seed; the
// resulting Program is explicit and is what a replay file stores.
// ---------------------------------------------------------------------------------------

type weights map[string]int

var allMutators = []string{"Add", "AddRaw", "Set", "SetRaw", "WriteCas", "Remove", "Delete", "Update", "Incr", "Touch",
	"GetAndTouchRaw", "SetXattrs", "UpdateXattrs", "RemoveXattrs", "DeleteSubDocPaths", "WriteWithXattrs",
	"WriteTombstoneWithXattrs", "WriteResurrectionWithXattrs", "WriteUpdateWithXattrs", "DeleteWithXattrs",
	"SetWithMeta", "DeleteWithMeta", "WriteSubDoc", "SubdocInsert"}

func baseWeights(w int) weights {
	out := weights{}
	for _, k := range allMutators {
		out[k] = w
	}
	return out
}

func (w weights) with(kv ...any) weights {
	out := weights{}
	for k, v := range w {
		out[k] = v
	}
	for i := 0; i+1 < len(kv); i += 2 {
		out[kv[i].(string)] = kv[i+1].(int)
	}
	return out
}

// Profile describes how programs of one property are generated.
type Profile struct {
	Name          string
	W             weights
	MinOps        int
	MaxOps        int
	MaxKeys       int
	MaxColl       int
	SmallDoc      int // percent of runs with a small MaxDocSize
	OnDiskPct     int // percent of runs on disk
	ReadAll       bool
	TwoBucketsPct int
	ReopenPct     int  // percent chance per run of containing Reopen ops (on-disk only)
	ExpPct        int  // percent of writes carrying an expiry
	ShortExp      bool // expiries of 1-40 simulated seconds (C14) instead of far-away ones
	ViewBodies    bool // bodies rich in the properties the view / query families look at
	JSONOnly      bool // no raw bodies (queries that address body properties need JSON)
	FaultPct      int  // percent of the on-disk runs that get injected disk faults
}

var profiles = map[string]Profile{
	"C01": {Name: "C01", FaultPct: 50, W: baseWeights(4).with("Purge", 2, "Backfill", 1, "Reopen", 1), MinOps: 6, MaxOps: 32, MaxKeys: 3, MaxColl: 1, SmallDoc: 15, OnDiskPct: 20, ReopenPct: 50, ExpPct: 30},
	"C02": {Name: "C02", FaultPct: 40, W: weights{"Set": 3, "Add": 2, "Delete": 3, "WriteCas": 10, "Remove": 6, "WriteWithXattrs": 6, "WriteTombstoneWithXattrs": 5,
		"UpdateXattrs": 5, "RemoveXattrs": 4, "SetWithMeta": 4, "DeleteWithMeta": 3, "WriteSubDoc": 4, "SubdocInsert": 3, "SetXattrs": 2, "Update": 2,
		"WriteResurrectionWithXattrs": 2, "DeleteWithXattrs": 1, "Purge": 1}, MinOps: 6, MaxOps: 28, MaxKeys: 2, MaxColl: 2, OnDiskPct: 10, ExpPct: 10},
	"C05": {Name: "C05", FaultPct: 40, W: weights{"Set": 4, "SetRaw": 2, "Add": 5, "AddRaw": 2, "Delete": 6, "Remove": 4, "Update": 5, "DeleteWithXattrs": 4,
		"WriteTombstoneWithXattrs": 4, "DeleteWithMeta": 3, "SetWithMeta": 2, "WriteCas": 7, "WriteResurrectionWithXattrs": 4, "WriteWithXattrs": 4,
		"UpdateXattrs": 4, "SetXattrs": 4, "Incr": 2, "WriteSubDoc": 2, "RemoveXattrs": 1, "DeleteSubDocPaths": 1, "WriteUpdateWithXattrs": 3,
		"Purge": 3, "Backfill": 5, "Touch": 1}, SmallDoc: 12, MinOps: 6, MaxOps: 30, MaxKeys: 2, MaxColl: 1, OnDiskPct: 10, ExpPct: 25},
	"C06": {Name: "C06", FaultPct: 40, W: weights{"Set": 4, "SetRaw": 1, "Add": 8, "AddRaw": 4, "Delete": 6, "Remove": 3, "Update": 5, "DeleteWithXattrs": 4,
		"WriteTombstoneWithXattrs": 4, "DeleteWithMeta": 3, "SetWithMeta": 2, "WriteCas": 10, "WriteResurrectionWithXattrs": 6, "WriteWithXattrs": 6,
		"UpdateXattrs": 3, "SetXattrs": 3, "Incr": 2, "WriteSubDoc": 2, "WriteUpdateWithXattrs": 2, "Purge": 3}, SmallDoc: 12, MinOps: 6, MaxOps: 30, MaxKeys: 2, MaxColl: 1, OnDiskPct: 10, ExpPct: 10},
	"C07": {Name: "C07", FaultPct: 50, W: weights{"Set": 3, "SetRaw": 2, "Add": 1, "Delete": 2, "WriteCas": 3, "Update": 2, "Incr": 1, "Touch": 1, "SetXattrs": 7, "UpdateXattrs": 7,
		"RemoveXattrs": 6, "DeleteSubDocPaths": 6, "WriteWithXattrs": 9, "WriteTombstoneWithXattrs": 6, "WriteResurrectionWithXattrs": 5,
		"WriteUpdateWithXattrs": 6, "DeleteWithXattrs": 4, "WriteSubDoc": 1, "Backfill": 1}, MinOps: 6, MaxOps: 30, MaxKeys: 2, MaxColl: 1, SmallDoc: 25, OnDiskPct: 10, ExpPct: 30},
	"C08": {Name: "C08", FaultPct: 50, W: baseWeights(4).with("Purge", 1), MinOps: 6, MaxOps: 30, MaxKeys: 3, MaxColl: 2, SmallDoc: 10, OnDiskPct: 10, ExpPct: 30},
	"C09": {Name: "C09", FaultPct: 40, W: baseWeights(3).with("Backfill", 14, "Purge", 1), MinOps: 6, MaxOps: 26, MaxKeys: 4, MaxColl: 2, OnDiskPct: 15, ExpPct: 30},
	"C11": {Name: "C11", FaultPct: 50, W: baseWeights(4).with("Purge", 2, "Backfill", 1, "Touch", 10, "GetAndTouchRaw", 6, "RecreateColl", 5, "EnsureColl", 4, "PutDDoc", 3, "View", 6, "Query", 5), MinOps: 8, MaxOps: 30, MaxKeys: 2, MaxColl: 3, ReadAll: true, TwoBucketsPct: 50, OnDiskPct: 15, ExpPct: 40},
	"C12": {Name: "C12", FaultPct: 40, W: weights{"Set": 10, "SetRaw": 2, "Add": 3, "Delete": 4, "Remove": 1, "WriteCas": 4, "Update": 3, "Incr": 2, "SetXattrs": 4, "UpdateXattrs": 2,
		"WriteWithXattrs": 4, "WriteTombstoneWithXattrs": 3, "WriteResurrectionWithXattrs": 2, "DeleteWithXattrs": 2, "WriteUpdateWithXattrs": 2, "WriteSubDoc": 2,
		"Touch": 1, "Purge": 2, "SetWithMeta": 2, "DeleteWithMeta": 1, "PutDDoc": 5, "DelDDoc": 1, "View": 22, "Reopen": 1}, MinOps: 8, MaxOps: 30, MaxKeys: 4, MaxColl: 2, OnDiskPct: 20, ReopenPct: 50, ExpPct: 5, ViewBodies: true},
	"C19": {Name: "C19", W: weights{"Set": 10, "SetRaw": 4, "Add": 3, "Delete": 4, "Remove": 1, "WriteCas": 4, "Update": 3, "Incr": 2, "SetXattrs": 4, "UpdateXattrs": 2,
		"WriteWithXattrs": 4, "WriteTombstoneWithXattrs": 3, "WriteResurrectionWithXattrs": 2, "DeleteWithXattrs": 2, "WriteUpdateWithXattrs": 2, "WriteSubDoc": 2,
		"Touch": 1, "Purge": 2, "Query": 20, "Reopen": 1, "RecreateColl": 2, "DeleteSubDocPaths": 3, "RemoveXattrs": 2, "CreateIndex": 2}, MinOps: 6, MaxOps: 26, MaxKeys: 4, MaxColl: 3, OnDiskPct: 50, ReopenPct: 50, ExpPct: 5, ViewBodies: true, JSONOnly: true},
	"C14": {Name: "C14", FaultPct: 40, W: weights{"Set": 6, "SetRaw": 3, "Add": 4, "AddRaw": 2, "WriteCas": 5, "Delete": 3, "Remove": 1, "Update": 3, "Incr": 3, "Touch": 8, "GetAndTouchRaw": 4,
		"UpdateXattrs": 4, "WriteWithXattrs": 5, "WriteResurrectionWithXattrs": 2, "WriteTombstoneWithXattrs": 2, "WriteUpdateWithXattrs": 3, "SetXattrs": 1, "SetWithMeta": 2,
		"DeleteWithXattrs": 1, "WriteSubDoc": 1, "Advance": 14, "Reopen": 3, "Purge": 1}, MinOps: 5, MaxOps: 26, MaxKeys: 3, MaxColl: 2, OnDiskPct: 30, ReopenPct: 100, ExpPct: 75, ShortExp: true},
	"C04": {Name: "C04", W: baseWeights(4).with("SetWithMeta", 1, "DeleteWithMeta", 1, "Clock", 8, "Restart", 5, "Reopen", 2, "Advance", 2, "Purge", 1, "RecreateColl", 3, "HLCBurst", 3), MinOps: 6, MaxOps: 30, MaxKeys: 2, MaxColl: 2, OnDiskPct: 60, ReopenPct: 100, ExpPct: 10},
	"C17": {Name: "C17", FaultPct: 40, W: baseWeights(4).with("Purge", 3, "Backfill", 4, "Touch", 8), MinOps: 6, MaxOps: 30, MaxKeys: 2, MaxColl: 1, OnDiskPct: 10, ExpPct: 20},
	"C18": {Name: "C18", FaultPct: 40, W: weights{"Set": 6, "SetRaw": 1, "Delete": 2, "WriteSubDoc": 14, "SubdocInsert": 10, "WriteCas": 2, "SetXattrs": 2, "Add": 1, "Purge": 1, "Touch": 1}, MinOps: 5, MaxOps: 24, MaxKeys: 2, MaxColl: 1, SmallDoc: 10, OnDiskPct: 10, ExpPct: 15},
}

var jsonBodies = []string{`{"a":1}`, `{"a":2,"b":"x"}`, `{"n":{"m":1,"k":"v"}}`, `{"arr":[1,2,3],"s":"t"}`, `{"a":{"b":{"c":5}},"z":null}`, `{}`}
var rawBodies = []string{"raw-bytes", "hello world", "\x00\x01binary\xff", "17", "x"}
var sysXattrs = []string{"_sync", "_x2"}
var userXattrs = []string{"u1", "u2"}
var allXattrNames = []string{"_sync", "_x2", "u1", "u2", "_syncx", "u&<3"} // (one name is a prefix of another; one needs escaping in JSON)

type gen struct {
	r        *Rng
	p        Profile
	n        int
	keys     []string
	ncoll    int
	twoB     bool
	smallRun bool // this run has a small size limit
}

func (g *gen) uniq() int { g.n++; return g.n }

func (g *gen) jsonBody() string {
	if g.p.ViewBodies {
		switch g.r.Intn(5) {
		case 0:
			return fmt.Sprintf(`{"v":%d}`, 1+g.r.Intn(12))
		case 1:
			return fmt.Sprintf(`{"s":"t%d","v":%d}`, g.r.Intn(3), 1+g.r.Intn(12))
		case 2:
			return fmt.Sprintf(`{"s":"t%d","v":%d,"w":[%d,%d]}`, g.r.Intn(3), 1+g.r.Intn(12), g.r.Intn(3), g.r.Intn(3))
		case 3:
			return fmt.Sprintf(`{"s":"t%d","u":%d}`, g.r.Intn(3), g.uniq())
		default:
			return fmt.Sprintf(`{"w":[%d],"x":%d}`, g.r.Intn(3), g.uniq())
		}
	}
	switch g.r.Intn(4) {
	case 0:
		return fmt.Sprintf(`{"v":%d}`, g.uniq())
	case 1:
		return fmt.Sprintf(`{"a":{"b":%d},"v":%d}`, g.r.Intn(5), g.uniq())
	case 2:
		return fmt.Sprintf(`{"s":"t%d","v":%d,"w":[1,2]}`, g.r.Intn(5), g.uniq())
	default:
		return jsonBodies[g.r.Intn(len(jsonBodies))]
	}
}

func (g *gen) rawBody() string {
	if g.p.JSONOnly {
		return g.jsonBody()
	}
	if g.r.Chance(6) {
		return "" // a present but zero-length body is still a body
	}
	if g.r.Chance(50) {
		return fmt.Sprintf("raw-%d", g.uniq())
	}
	return rawBodies[g.r.Intn(len(rawBodies))]
}

func (g *gen) bigBody(json bool) string {
	pad := make([]byte, 150+g.r.Intn(200))
	for i := range pad {
		pad[i] = 'p'
	}
	if json {
		return fmt.Sprintf(`{"pad":"%s"}`, pad)
	}
	return string(pad)
}

func (g *gen) midBody() string {
	pad := make([]byte, 50+g.r.Intn(70))
	for i := range pad {
		pad[i] = 'm'
	}
	return string(pad)
}

func (g *gen) xattrVal() string {
	if g.smallRun && g.r.Chance(12) {
		// a large value: with a small size limit the xattrs alone come near it
		pad := make([]byte, 60+g.r.Intn(120))
		for i := range pad {
			pad[i] = 'x'
		}
		return fmt.Sprintf(`"%s"`, pad)
	}
	if g.p.ViewBodies && g.r.Chance(60) {
		return fmt.Sprintf(`{"r":%d}`, 1+g.r.Intn(9))
	}
	if g.p.Name == "C19" && g.r.Chance(35) {
		return fmt.Sprintf(`%d`, g.r.Intn(10)) // {"u1":7}: an xattrs column of exactly eight bytes
	}
	switch g.r.Intn(5) {
	case 0:
		return fmt.Sprintf(`{"r":%d}`, g.uniq())
	case 1:
		return fmt.Sprintf(`"s%d"`, g.uniq())
	case 2:
		return fmt.Sprintf(`%d`, g.uniq())
	case 3:
		return fmt.Sprintf(`{"cas":"x","n":{"c":"y"},"r":%d}`, g.uniq())
	default:
		return fmt.Sprintf(`[%d,"e"]`, g.uniq())
	}
}

func (g *gen) xattrSet(min, max int) map[string]string {
	n := min + g.r.Intn(max-min+1)
	out := map[string]string{}
	for i := 0; i < n; i++ {
		out[allXattrNames[g.r.Intn(len(allXattrNames))]] = g.xattrVal()
	}
	if len(out) == 0 && min > 0 {
		out["_sync"] = g.xattrVal()
	}
	return out
}

var illegalXattrNames = []string{"a.b", "$x", "x[0]", "u1.sub"}

// withIllegal sometimes slips an unsupported xattr name into a list (not first).
func (g *gen) withIllegal(names []string) []string {
	if len(names) > 0 && g.r.Chance(8) {
		bad := illegalXattrNames[g.r.Intn(len(illegalXattrNames))]
		i := 1 + g.r.Intn(len(names))
		names = append(append(append([]string{}, names[:i]...), bad), names[i:]...)
	}
	return names
}

func (g *gen) xattrNames(min, max int) []string {
	n := min + g.r.Intn(max-min+1)
	seen := map[string]bool{}
	var out []string
	for i := 0; i < n; i++ {
		k := allXattrNames[g.r.Intn(len(allXattrNames))]
		if !seen[k] {
			seen[k] = true
			out = append(out, k)
		}
	}
	sort.Strings(out)
	return out
}

func (g *gen) casMode(wCur, wZero, wStale, wBogus int) string {
	t := g.r.Intn(wCur + wZero + wStale + wBogus)
	switch {
	case t < wCur:
		return "cur"
	case t < wCur+wZero:
		return "zero"
	case t < wCur+wZero+wStale:
		return "stale"
	default:
		return "bogus"
	}
}

func (g *gen) expVal() uint32 {
	if g.r.Chance(2) {
		return 2592000 // exactly 30 days: the largest value that is still an offset
	}
	if g.p.ShortExp {
		if g.r.Chance(40) {
			return uint32(1 + g.r.Intn(4))
		}
		return uint32(1 + g.r.Intn(40))
	}
	return uint32(5000 + g.r.Intn(100000))
}

func (g *gen) exp(op *Op) {
	if g.p.ShortExp {
		if g.r.Chance(g.p.ExpPct) {
			op.ExpKind, op.ExpVal = 1+g.r.Intn(2), g.expVal()
		}
		return
	}
	if g.r.Chance(g.p.ExpPct) {
		if g.r.Bool() {
			op.ExpKind, op.ExpVal = 1, uint32(5000+g.r.Intn(100000))
		} else {
			op.ExpKind, op.ExpVal = 2, uint32(5000+g.r.Intn(100000))
		}
	}
}

func (g *gen) macros(op *Op, set map[string]string) []Macro {
	if !g.r.Chance(25) {
		return nil
	}
	var ms []Macro
	for _, k := range sortedKeys(set) { // (never draw while ranging over a Go map: the order is random)
		v := set[k]
		if len(v) > 0 && v[0] == '{' && g.r.Chance(60) {
			switch g.r.Intn(3) {
			case 0:
				ms = append(ms, Macro{Path: k + ".cas", Type: 0})
			case 1:
				ms = append(ms, Macro{Path: k + ".crc", Type: 1})
			default:
				ms = append(ms, Macro{Path: k + ".cas", Type: 0}, Macro{Path: k + ".crc", Type: 1})
			}
			if g.r.Chance(15) {
				// a nested path: under an object some values have ("n"), or under one none has ("meta")
				ms = append(ms, Macro{Path: k + []string{".n.cas", ".meta.cas"}[g.r.Intn(2)], Type: 0})
			}
		}
	}
	sort.Slice(ms, func(i, j int) bool { return ms[i].Path < ms[j].Path })
	return ms
}

func (g *gen) subPath() string {
	paths := []string{"a", "v", "a.b", "n.m", "n.x", "s", "q", "a.b.c", "w", "arr.x", "z.y", "new.deep", "a.", ".n", "a..b", "n..m"}
	return paths[g.r.Intn(len(paths))]
}

func (g *gen) op(kind string) Op {
	op := Op{Kind: kind}
	op.Key = g.keys[g.r.Intn(len(g.keys))]
	op.Coll = g.r.Intn(g.ncoll)
	if g.twoB && g.r.Chance(25) && kind != "Backfill" && kind != "Purge" && kind != "Reopen" && kind != "Restart" && kind != "Advance" && kind != "Clock" && kind != "RecreateColl" && kind != "EnsureColl" && kind != "CreateIndex" && kind != "HLCBurst" && kind != "PutDDoc" && kind != "DelDDoc" && kind != "View" && kind != "Query" {
		op.Handle, op.Coll = 9, 0
	}
	small := g.p.SmallDoc > 0
	switch kind {
	case "Add", "Set":
		op.Body = strp(g.jsonBody())
		if small && g.r.Chance(8) {
			op.Body = strp(g.bigBody(true))
		}
		g.exp(&op)
		if kind == "Set" {
			op.Preserve = g.r.Chance(25)
		}
	case "AddRaw", "SetRaw":
		if g.r.Chance(30) {
			op.Body = strp(g.jsonBody())
		} else {
			op.Body = strp(g.rawBody())
		}
		if small && g.r.Chance(8) {
			op.Body = strp(g.bigBody(false))
		} else if small && g.r.Chance(35) {
			op.Body = strp(g.midBody())
		}
		g.exp(&op)
		if kind == "SetRaw" {
			op.Preserve = g.r.Chance(25)
		}
	case "WriteCas":
		pick := g.r.Intn(10)
		if g.p.JSONOnly && pick >= 2 && pick <= 5 {
			pick = 6 // (no raw / appended bodies where queries address body properties)
		}
		switch pick {
		case 0, 1:
			op.WOpt = int(sgbucket.AddOnly)
			op.Body = strp(g.jsonBody())
			op.CasMode = g.casMode(2, 5, 2, 1)
		case 2:
			op.WOpt = int(sgbucket.AddOnly | sgbucket.Raw)
			op.Body = strp(g.rawBody())
			op.CasMode = g.casMode(2, 5, 2, 1)
		case 3, 4:
			op.WOpt = int(sgbucket.Append)
			op.Body = strp(g.rawBody())
			if small && g.r.Chance(60) {
				// pieces that fit the size limit one by one but not together
				op.Body = strp(g.midBody())
			}
			op.CasMode = g.casMode(6, 1, 2, 1)
		case 5:
			op.WOpt = int(sgbucket.Raw)
			op.Body = strp(g.rawBody())
			op.CasMode = g.casMode(5, 3, 2, 1)
		default:
			op.Body = strp(g.jsonBody())
			op.CasMode = g.casMode(5, 3, 2, 1)
		}
		g.exp(&op)
	case "Remove":
		op.CasMode = g.casMode(6, 1, 2, 1)
	case "Delete":
	case "Update":
		n := 1
		if g.r.Chance(20) {
			op.Cb = append(op.Cb, CbAct{Act: "retry"})
			n++
		}
		switch g.r.Intn(10) {
		case 0, 1, 2:
			op.Cb = append(op.Cb, CbAct{Act: "delete"})
		case 3:
			op.Cb = append(op.Cb, CbAct{Act: "cancel"})
		case 4:
			op.Cb = append(op.Cb, CbAct{Act: "err"})
		default:
			a := CbAct{Act: "set", Body: strp(g.jsonBody())}
			if g.r.Chance(20) {
				e := g.expVal()
				a.Exp = &e
				if g.r.Chance(40) {
					a.Body = nil // only the expiry changes: the body the callback was shown stays
				}
			}
			op.Cb = append(op.Cb, a)
		}
		g.exp(&op)
	case "Incr":
		op.Amt, op.Def = uint64(g.r.Intn(5)), uint64(g.r.Intn(50))
		g.exp(&op)
	case "Touch", "GetAndTouchRaw":
		op.ExpKind, op.ExpVal = 1+g.r.Intn(2), g.expVal()
		if g.r.Chance(15) {
			op.ExpKind, op.ExpVal = 0, 0
		} else if g.r.Chance(15) {
			op.ExpKind, op.ExpVal = 3, 0 // the deadline the document already has, once more
		}
	case "SetXattrs":
		op.Xattrs = g.xattrSet(1, 2)
		if g.r.Chance(25) {
			for _, k := range g.xattrNames(1, 1) {
				if _, dup := op.Xattrs[k]; !dup {
					op.XDel = append(op.XDel, k)
				}
			}
		}
	case "UpdateXattrs":
		op.Xattrs = g.xattrSet(1, 2)
		op.CasMode = g.casMode(6, 2, 2, 1)
		op.Preserve = g.r.Chance(30)
		op.Macros = g.macros(&op, op.Xattrs)
		g.exp(&op)
	case "RemoveXattrs":
		op.XDel = g.xattrNames(1, 2)
		op.CasMode = g.casMode(7, 1, 2, 1)
	case "DeleteSubDocPaths":
		op.XDel = g.withIllegal(g.xattrNames(1, 3))
	case "WriteWithXattrs":
		if g.r.Chance(70) {
			op.Body = strp(g.jsonBody())
			if small && g.r.Chance(10) {
				op.Body = strp(g.bigBody(true))
			}
		}
		op.Xattrs = g.xattrSet(0, 2)
		if op.Body == nil && len(op.Xattrs) == 0 && g.r.Chance(80) {
			op.Xattrs = g.xattrSet(1, 2)
		}
		op.CasMode = g.casMode(6, 3, 2, 1)
		op.XDelNil = true
		if g.r.Chance(30) {
			op.XDelNil = false
			op.XDel = g.xattrNames(1, 2)
		}
		op.Preserve = g.r.Chance(25)
		op.Macros = g.macros(&op, op.Xattrs)
		if g.r.Chance(20) {
			// write an xattr back as stored, with macros on it: the expansions must still be refreshed
			name := allXattrNames[g.r.Intn(len(allXattrNames))]
			op.XEcho = []string{name}
			delete(op.Xattrs, name)
			op.Macros = append(op.Macros, Macro{Path: name + ".cas", Type: 0}, Macro{Path: name + ".crc", Type: 1})
		}
		g.exp(&op)
	case "WriteTombstoneWithXattrs":
		op.Xattrs = g.xattrSet(1, 2)
		if g.r.Chance(5) {
			op.Xattrs = nil
		}
		op.CasMode = g.casMode(6, 3, 2, 1)
		op.DelBody = g.r.Bool()
		op.XDelNil = true
		if g.r.Chance(25) {
			op.XDelNil = false
			op.XDel = g.xattrNames(1, 2)
		}
		op.Macros = g.macros(&op, op.Xattrs)
		g.exp(&op)
		op.Preserve = g.r.Chance(15) // (a deletion clears the expiry whatever this option says)
	case "WriteResurrectionWithXattrs":
		op.Body = strp(g.jsonBody())
		if g.r.Chance(4) {
			op.Body = nil
		}
		op.Xattrs = g.xattrSet(0, 2)
		op.Preserve = g.r.Chance(15)
		op.Macros = g.macros(&op, op.Xattrs)
		g.exp(&op)
	case "DeleteWithXattrs":
		op.XDel = g.withIllegal(g.xattrNames(0, 2))
	case "WriteUpdateWithXattrs":
		op.XNames = g.xattrNames(1, 3)
		if g.r.Chance(15) {
			op.Cb = append(op.Cb, CbAct{Act: "retry"})
		}
		a := CbAct{}
		switch g.r.Intn(10) {
		case 0:
			a.Act = "err"
		case 1, 2, 3:
			a.Act = "tomb"
			a.Xattrs = g.xattrSet(1, 2)
		case 4, 5:
			a.Act = "xattrs"
			a.Xattrs = g.xattrSet(1, 2)
		default:
			a.Act = "set"
			a.Body = strp(g.jsonBody())
			a.Xattrs = g.xattrSet(0, 2)
		}
		if a.Act != "err" && g.r.Chance(20) {
			for _, k := range g.xattrNames(1, 1) {
				if _, dup := a.Xattrs[k]; !dup {
					a.XDel = append(a.XDel, k)
				}
			}
		}
		if a.Act != "err" {
			a.Macros = g.macros(&op, a.Xattrs)
			if g.r.Chance(20) {
				e := g.expVal()
				a.Exp = &e
			}
		}
		op.Cb = append(op.Cb, a)
	case "SetWithMeta":
		op.JSON = g.r.Bool()
		if op.JSON {
			op.Body = strp(g.jsonBody())
		} else {
			op.Body = strp(g.rawBody())
		}
		op.Xattrs = g.xattrSet(0, 2)
		op.CasMode = g.casMode(6, 3, 2, 1)
		op.Amt = uint64(g.r.Intn(1000))
		if g.r.Chance(g.p.ExpPct) {
			op.ExpKind, op.ExpVal = 2, g.expVal()
		}
	case "DeleteWithMeta":
		op.Xattrs = g.xattrSet(0, 2)
		op.CasMode = g.casMode(6, 2, 2, 1)
		op.Amt = uint64(g.r.Intn(1000))
	case "WriteSubDoc":
		op.Path = g.subPath()
		switch g.r.Intn(6) {
		case 0:
			op.Body = strp("")
		case 1:
			op.Body = strp(fmt.Sprintf(`{"x":%d}`, g.uniq()))
		case 2:
			op.Body = strp(fmt.Sprintf(`"str%d"`, g.uniq()))
		default:
			op.Body = strp(fmt.Sprintf(`%d`, g.uniq()))
		}
		op.CasMode = g.casMode(3, 5, 2, 1)
	case "SubdocInsert":
		op.Path = g.subPath()
		op.Body = strp(fmt.Sprintf(`%d`, g.uniq()))
		if g.r.Chance(30) {
			op.Body = strp(fmt.Sprintf(`{"y":%d}`, g.uniq()))
		}
		op.CasMode = g.casMode(3, 5, 2, 1)
	case "Backfill":
		op.Key = ""
		op.CasMode = []string{"zero", "zero", "mid", "max", "above"}[g.r.Intn(5)]
		if g.r.Chance(15) {
			op.WOpt = 1 // keys only
		}
	case "Purge", "Reopen", "Restart":
		op.Key = ""
		op.Coll = 0
		op.Dur = g.r.Intn(100)
	case "Advance":
		op.Key = ""
		op.Coll = 0
		op.Dur = []int{1, 2, 3, 5, 8, 13, 30, 60}[g.r.Intn(8)]
		if g.r.Chance(50) {
			// not a whole number of seconds: later writes happen at a fraction of a second, so that the
			// expiry timer (armed in whole seconds from the write) fires some time AFTER the expiry time
			op.Amt = uint64(100 * (1 + g.r.Intn(9)))
			if g.r.Chance(30) {
				op.Dur = 0
			}
		}
	case "PutDDoc":
		op.Key = []string{"dd1", "dd2"}[g.r.Intn(2)]
		op.Xattrs = map[string]string{}
		fams := []string{"F0", "F1", "F2", "F3", "F4:_count", "F4:_sum", "F1:_count", "F4", "F5"}
		for i := 0; i < 1+g.r.Intn(2); i++ {
			op.Xattrs[fmt.Sprintf("v%d", i+1)] = fams[g.r.Intn(len(fams))]
		}
		if g.p.Name == "C12" {
			op.Handle = g.r.Intn(2)
		}
	case "DelDDoc":
		op.Key = []string{"dd1", "dd2"}[g.r.Intn(2)]
		if g.p.Name == "C12" {
			op.Handle = g.r.Intn(2)
		}
	case "View":
		op.Key = []string{"dd1", "dd2"}[g.r.Intn(2)]
		op.Path = []string{"v1", "v2"}[g.r.Intn(2)]
		op.Body = strp(g.viewParams())
		if g.p.Name == "C12" {
			op.Handle = g.r.Intn(2) // design documents are replaced and queried through either of two handles
		}
	case "Query":
		kinds := []string{"ids", "idbody", "idge", "num", "str", "xattr", "count", "xnull", "idnum", "veq", "like", "cols", "xu1"}
		if !g.p.JSONOnly {
			kinds = []string{"ids", "idge", "xattr", "count", "xnull", "idnum", "like", "xu1"} // raw bodies around: only queries that do not parse the body
		}
		op.Key = ""
		op.Path = kinds[g.r.Intn(len(kinds))]
		switch op.Path {
		case "idge":
			op.Body = strp(fmt.Sprintf(`{"k":"k%d"}`, 1+g.r.Intn(4)))
			if g.r.Chance(40) {
				kb, _ := json.Marshal(map[string]string{"k": g.keys[g.r.Intn(len(g.keys))]})
				op.Body = strp(string(kb))
			}
		case "num":
			op.Body = strp(fmt.Sprintf(`{"min":%d}`, g.r.Intn(12)))
		case "str":
			op.Body = strp(fmt.Sprintf(`{"s":"t%d"}`, g.r.Intn(3)))
		case "like":
			op.Body = strp([]string{`{"pat":"K%"}`, `{"pat":"k%"}`, `{"pat":"K1%"}`, `{"pat":"zz%"}`}[g.r.Intn(4)])
		case "idnum":
			op.Body = strp(fmt.Sprintf(`{"n":%d}`, 1+g.r.Intn(4)))
		case "veq":
			op.Body = strp(fmt.Sprintf(`{"n":%d}`, g.r.Intn(12)))
		}
		if g.r.Chance(25) {
			op.WOpt = 1 // hold the iterator open across a write (on-disk buckets)
		}
		op.Amt = uint64(g.r.Intn(4)) // bit 0: adhoc=false (statement may be cached); bit 1: collect NextBytes() slices first

	case "HLCBurst":
		op.Key = ""
		op.Coll = 0
		op.Dur = []int{100, 5000, 70000, 140000}[g.r.Intn(4)]
	case "CreateIndex":
		op.Key = ""
		op.Dur = g.r.Intn(100)
	case "EnsureColl":
		op.Key = ""
	case "RecreateColl":
		op.Key = ""
		op.Dur = g.r.Intn(100)
		if g.ncoll > 1 {
			op.Coll = 1 + g.r.Intn(g.ncoll-1)
		}
	case "Clock":
		op.Key = ""
		op.Coll = 0
		op.CasMode = []string{"stall", "back", "jump", "normal", "back"}[g.r.Intn(5)]
		op.Dur = g.r.Intn(5000)
	}
	return op
}

// GenE1 builds the program of one sequential run.
func GenE1(prop string, seed uint64) *Program {
	p, ok := profiles[prop]
	if !ok {
		panic("no profile for " + prop)
	}
	r := NewRng(seed)
	g := &gen{r: r, p: p}
	prog := &Program{Engine: "e1", Prop: prop, Seed: seed, ReadAll: p.ReadAll, CrashAt: -1}
	prog.OnDisk = r.Chance(p.OnDiskPct)
	prog.NColl = 1 + r.Intn(p.MaxColl)
	if prop == "C11" && prog.NColl < 2 {
		prog.NColl = 2
	}
	g.ncoll = prog.NColl
	if p.SmallDoc > 0 && r.Chance(p.SmallDoc) {
		prog.MaxDoc = 120 + r.Intn(200)
		g.smallRun = true
	}
	if r.Chance(p.TwoBucketsPct) {
		prog.TwoBuckets, g.twoB = true, true
	}
	if prop == "C11" && !prog.TwoBuckets && r.Chance(35) {
		// expiry must stay inside its collection: short deadlines and idle periods
		g.p.ShortExp = true
		g.p.W = g.p.W.with("Advance", 8)
		p = g.p
	}
	switch prop {
	case "C01", "C02", "C05", "C06", "C07", "C08", "C09", "C17", "C18":
		if !prog.TwoBuckets && r.Chance(15) {
			// documents whose expiry time is reached, and passed, while the history goes on: until the
			// sweep has tombstoned a document it is live for every entry point alike
			g.p.ShortExp = true
			g.p.ExpPct = 60
			g.p.W = g.p.W.with("Advance", 10)
			p = g.p
		}
	}
	if prop == "C12" && r.Chance(20) {
		// documents expire between view queries: the index must drop them (and keep what a tombstone
		// with xattrs still emits) although nobody wrote to the collection
		g.p.ShortExp = true
		g.p.ExpPct = 50
		g.p.W = g.p.W.with("Advance", 10)
		p = g.p
	}
	if prop == "C19" && r.Chance(25) {
		// documents whose expiry time passes while the queries go on: a query must keep showing a
		// document for exactly as long as a read does
		g.p.ShortExp = true
		g.p.ExpPct = 60
		g.p.W = g.p.W.with("Advance", 12)
		p = g.p
	}
	nk := 1 + r.Intn(p.MaxKeys)
	for i := 0; i < nk; i++ {
		g.keys = append(g.keys, fmt.Sprintf("k%d", i+1))
	}
	// Key shapes: most runs use k1..kN; some use keys that differ in case and punctuation (Unicode
	// collation of view keys orders them differently from their bytes) or that need escaping when
	// they are put into JSON, SQL or a LIKE pattern.
	if sty := r.Intn(8); sty < 2 {
		styles := [][]string{{"k1", "K2", "k_3", "k-4", "K1", "k 5"}, {"a%b", "it's", `q"x\y`, "é_1", "<k&2>", "k1"}}
		for i := range g.keys {
			g.keys[i] = styles[sty][i%len(styles[sty])]
		}
	}
	// swarm: randomly knock out part of the vocabulary for this run
	w := weights{}
	var kinds []string
	for k := range p.W {
		kinds = append(kinds, k)
	}
	sort.Strings(kinds)
	total := 0
	for _, k := range kinds {
		wt := p.W[k]
		if r.Chance(25) {
			wt = 0
		} else if r.Chance(20) {
			wt *= 4
		}
		if k == "Restart" && !prog.OnDisk {
			wt = 0
		}
		if k == "Reopen" && !r.Chance(p.ReopenPct) {
			wt = 0
		}
		w[k] = wt
		total += wt
	}
	if total == 0 {
		for _, k := range kinds {
			w[k] = p.W[k]
			total += w[k]
		}
	}
	n := p.MinOps + r.Intn(p.MaxOps-p.MinOps+1)
	if p.FaultPct > 0 && !g.p.ShortExp && r.Chance(p.FaultPct/2) {
		// (not in runs with near expiry deadlines: rosmar's retry sleeps with the bucket mutex held, and
		// in this engine the expiry timer's goroutine then blocks on that mutex for real, which the
		// bubble's fake clock cannot see through - the sleep would never end)
		// cooperative fault point: the transaction of some operations is made to fail with BUSY right
		// before COMMIT once or twice, which drives rosmar's retry loop (the operation must still
		// take effect exactly once)
		for i := 0; i < 1+r.Intn(2); i++ {
			prog.Faults = append(prog.Faults, FaultSpec{AtOp: r.Intn(n), Kind: 5, Offset: r.Intn(2)})
		}
	}
	stmtFaults := 0
	if p.FaultPct > 0 && r.Chance(p.FaultPct/3) {
		// one statement of some operations fails (2-4 operations per run): each such call must fail as a
		// whole, or work (planted below, once the operations are known)
		stmtFaults = 2 + r.Intn(3)
	}
	if prog.OnDisk && p.FaultPct > 0 && r.Chance(p.FaultPct) {
		// separate fault-injecting configuration: 1-3 one-shot disk faults inside operations
		for i := 0; i < 1+r.Intn(3); i++ {
			kind := []int{1, 1, 2, 4, 4, 3}[r.Intn(6)]
			prog.Faults = append(prog.Faults, FaultSpec{AtOp: r.Intn(n), Kind: kind, Offset: r.Intn(5)})
		}
	}
	for i := 0; i < n; i++ {
		t := r.Intn(total)
		for _, k := range kinds {
			if t < w[k] {
				prog.Ops = append(prog.Ops, g.op(k))
				break
			}
			t -= w[k]
		}
		// a write with a short relative expiry E is sometimes followed by an idle period that ends just
		// before E seconds are over: if the write happened at a fraction of a second, the expiry time has
		// then been reached while the sweep (armed in whole seconds from the write) has not run yet
		if last := prog.Ops[len(prog.Ops)-1]; g.p.ShortExp && last.ExpKind == 1 && last.ExpVal >= 1 && last.ExpVal <= 5 && r.Chance(35) {
			prog.Ops = append(prog.Ops, Op{Kind: "Advance", Dur: int(last.ExpVal) - 1, Amt: 900})
		}
	}
	var queryOps []int
	for i, o := range prog.Ops {
		if o.Kind == "View" || o.Kind == "Query" || o.Kind == "Backfill" {
			queryOps = append(queryOps, i)
		}
	}
	for i := 0; i < stmtFaults; i++ {
		off := r.Intn(24)
		if r.Chance(40) {
			off = r.Intn(90) // (view updates and xattr writes issue many statements)
		}
		at := r.Intn(len(prog.Ops))
		if len(queryOps) > 0 && r.Chance(40) {
			at = queryOps[r.Intn(len(queryOps))]
			if r.Chance(50) {
				off = 30 + r.Intn(40) // past the look-ups at the start of an index update, into its writes
			}
		}
		prog.Faults = append(prog.Faults, FaultSpec{AtOp: at, Kind: 6, Offset: off})
	}
	return prog
}

// viewParams draws a parameter combination for a view query (as JSON).
func (g *gen) viewParams() string {
	key := func() string {
		switch g.r.Intn(5) {
		case 0:
			return fmt.Sprintf(`"k%d"`, 1+g.r.Intn(4))
		case 1:
			return fmt.Sprintf(`["t%d",%d]`, g.r.Intn(3), 1+g.r.Intn(12))
		case 2:
			return fmt.Sprintf(`["t%d"]`, g.r.Intn(3))
		default:
			return fmt.Sprintf(`%d`, g.r.Intn(12))
		}
	}
	parts := []string{`"stale":false`}
	switch g.r.Intn(9) {
	case 0:
		parts = append(parts, `"key":`+key())
	case 1, 2:
		parts = append(parts, `"startkey":`+key())
		if g.r.Bool() {
			parts = append(parts, `"endkey":`+key())
		}
		if g.r.Chance(30) {
			parts = append(parts, `"inclusive_end":false`)
		}
	case 3:
		parts = append(parts, `"endkey":`+key())
		if g.r.Chance(40) {
			parts = append(parts, `"inclusive_end":false`)
		}
	case 4:
		// (never reduced: sg-bucket, a trusted dependency, picks one row per requested key before it
		// reduces, so what a reduced keys-query counts is its business, not rosmar's)
		parts = append(parts, fmt.Sprintf(`"keys":[%s,%s]`, key(), key()), `"reduce":false`)
		return "{" + joinComma(parts) + "}"
	}
	if g.r.Chance(30) {
		parts = append(parts, `"descending":true`)
	}
	switch g.r.Intn(6) {
	case 0:
		parts = append(parts, `"reduce":false`)
		if g.r.Chance(50) {
			parts = append(parts, fmt.Sprintf(`"limit":%d`, 1+g.r.Intn(4)))
		}
	case 1:
		parts = append(parts, `"group":true`)
	case 2:
		parts = append(parts, `"group_level":1`)
	case 3:
		parts = append(parts, `"reduce":false`)
	}
	return "{" + joinComma(parts) + "}"
}

func joinComma(parts []string) string {
	out := ""
	for i, p := range parts {
		if i > 0 {
			out += ","
		}
		out += p
	}
	return out
}
