package sim

import (
	"context"
	"encoding/json"
	"fmt"
	"time"

	sgbucket "github.com/couchbase/sg-bucket"
	"github.com/couchbaselabs/rosmar"
)

func jsonMarshal(v any) ([]byte, error) { return json.Marshal(v) }

// control executes the lifecycle / feed operations of concurrent programs.
func (e *e2) control(op *Op, ctx *OpCtx) (res Res) {
	defer func() {
		if r := recover(); r != nil {
			res.Panic = fmt.Sprint(r)
			res.Err = EPanic
			res.ErrText = fmt.Sprint(r) + " @ " + firstRosmarFrame(string(stackOf()))
		}
	}()
	e.mu.Lock()
	h := op.Handle
	if h >= len(e.w.Handles) || h < 0 {
		h = 0
	}
	handle := e.w.Handles[h]
	e.mu.Unlock()
	switch op.Kind {
	case "StartFeed":
		_, err := e.startFeed(*op.Feed)
		res.Err = classify(err)
		if err != nil {
			res.ErrText = err.Error()
		}
	case "StopFeed":
		e.mu.Lock()
		f := e.feeds[op.Feed.LogKey()]
		e.mu.Unlock()
		if f != nil {
			f.Stop()
		}
	case "WaitFeed":
		e.mu.Lock()
		f := e.feeds[op.Feed.LogKey()]
		e.mu.Unlock()
		if f != nil {
			<-f.Done
		}
	case "Close":
		handle.Close(context.Background())
		e.mu.Lock()
		e.closedHandles[h] = true
		e.mu.Unlock()
	case "CloseAndDelete":
		err := handle.CloseAndDelete(context.Background())
		res.Err = classify(err)
		e.mu.Lock()
		e.deleted = true
		for i := range e.w.Handles {
			e.closedHandles[i] = true
		}
		e.mu.Unlock()
	case "DropColl":
		err := handle.DropDataStore(e.w.CollName[op.Coll])
		res.Err = classify(err)
		if err == nil {
			e.mu.Lock()
			if e.dropped == nil {
				e.dropped = map[int]bool{}
			}
			e.dropped[op.Coll] = true
			e.mu.Unlock()
		}
	case "OpenHandle":
		mode := rosmar.OpenMode(rosmar.CreateOrOpen)
		if op.CasMode == "reopen" {
			mode = rosmar.ReOpenExisting
		}
		b, err := rosmar.OpenBucket(e.w.URL, e.w.Name, mode)
		res.Err = classify(err)
		if err != nil {
			res.ErrText = err.Error()
			return res
		}
		var cs []sgbucket.DataStore
		for i := 0; i < e.p.NColl; i++ {
			var ds sgbucket.DataStore
			if i == 0 {
				ds = b.DefaultDataStore()
			} else {
				ds, _ = b.NamedDataStore(collNames[i])
			}
			cs = append(cs, ds)
		}
		e.mu.Lock()
		e.w.Handles = append(e.w.Handles, b)
		e.w.Colls = append(e.w.Colls, cs)
		res.Val = uint64(len(e.w.Handles) - 1)
		e.mu.Unlock()
	case "PutDDoc", "DelDDoc", "View":
		h := op.Handle
		if h < 0 || h >= len(e.w.Colls) || op.Coll >= len(e.w.Colls[h]) || e.w.Colls[h][op.Coll] == nil {
			res.Err = EClosed
			return res
		}
		c := e.w.Colls[h][op.Coll].(*rosmar.Collection)
		var err error
		switch op.Kind {
		case "PutDDoc":
			err = c.PutDDoc(context.Background(), op.Key, buildDDoc(op.Xattrs))
		case "DelDDoc":
			err = c.DeleteDDoc(op.Key)
		default:
			var params map[string]any
			_ = json.Unmarshal([]byte(*op.Body), &params)
			var vr sgbucket.ViewResult
			vr, err = c.View(context.Background(), op.Key, op.Path, params)
			if err == nil {
				res.Rows = rowsOf(vr)
				res.Count = int64(len(vr.Rows))
			}
		}
		res.Err = classify(err)
		if err != nil {
			res.ErrText = err.Error()
		}
	case "HLCBurn":
		for i := 0; i < op.Dur; i++ {
			rosmar.VerifHLCNow()
		}
	case "OpenOther":
		// another bucket of the process is created, written once and deleted again while the clients run
		name := fmt.Sprintf("%s-other%d", e.w.Name, e.seq.Add(1))
		b, err := rosmar.OpenBucket(rosmar.InMemoryURL, name, rosmar.CreateOrOpen)
		res.Err = classify(err)
		if err != nil {
			res.ErrText = err.Error()
			return res
		}
		if ds := b.DefaultDataStore(); ds != nil {
			_ = ds.SetRaw("other", 0, nil, []byte("x"))
		}
		_ = b.CloseAndDelete(context.Background())
	case "Sleep":
		e.s.Sleep(time.Duration(op.Dur) * time.Second)
	case "Yield":
	default:
		panic("unknown control op " + op.Kind)
	}
	return res
}
