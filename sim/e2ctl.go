package sim

import (
	"context"
	"encoding/json"
	"fmt"
	"time"
)

func jsonMarshal(v any) ([]byte, error) { return json.Marshal(v) }

// control executes the lifecycle / feed operations of concurrent programs.
func (e *e2) control(op *Op, ctx *OpCtx) (res Res) {
	defer func() {
		if r := recover(); r != nil {
			res.Panic = fmt.Sprint(r)
			res.Err = EPanic
			res.ErrText = fmt.Sprint(r) + " @ " + firstRosmarFrame(string(stackOf()))
		}
	}()
	h := op.Handle
	if h >= len(e.w.Handles) {
		h = 0
	}
	switch op.Kind {
	case "StartFeed":
		_, err := e.startFeed(*op.Feed)
		res.Err = classify(err)
		if err != nil {
			res.ErrText = err.Error()
		}
	case "StopFeed":
		e.mu.Lock()
		f := e.feeds[op.Feed.LogKey()]
		e.mu.Unlock()
		if f != nil {
			f.Stop()
		}
	case "WaitFeed":
		e.mu.Lock()
		f := e.feeds[op.Feed.LogKey()]
		e.mu.Unlock()
		if f != nil {
			<-f.Done
		}
	case "Close":
		e.w.Handles[h].Close(context.Background())
		e.mu.Lock()
		e.closedHandles[h] = true
		e.mu.Unlock()
	case "CloseAndDelete":
		err := e.w.Handles[h].CloseAndDelete(context.Background())
		res.Err = classify(err)
		e.mu.Lock()
		e.deleted = true
		for i := range e.w.Handles {
			e.closedHandles[i] = true
		}
		e.mu.Unlock()
	case "DropColl":
		err := e.w.Handles[h].DropDataStore(e.w.CollName[op.Coll])
		res.Err = classify(err)
		if err == nil {
			e.mu.Lock()
			if e.dropped == nil {
				e.dropped = map[int]bool{}
			}
			e.dropped[op.Coll] = true
			e.mu.Unlock()
		}
	case "Sleep":
		time.Sleep(time.Duration(op.Dur) * time.Second)
	case "Yield":
	default:
		panic("unknown control op " + op.Kind)
	}
	return res
}
