package sim

import (
	"context"
	"fmt"
	"net/url"
	"os"
	"path/filepath"
	"sort"
	"strings"
	"testing"
	"testing/synctest"
	"time"

	sgbucket "github.com/couchbase/sg-bucket"
	"github.com/couchbaselabs/rosmar"
)

// ---------------------------------------------------------------------------------------
// E13: bucket handle lifecycle (C13), sequential half. A random script of OpenBucket (three
// modes, in-memory / two directories, two names), Close, repeated Close, CloseAndDelete and
// data operations over up to five handle slots is run against a registry model; after every
// step EVERY handle is probed with a read and a write.
// ---------------------------------------------------------------------------------------

type lcStore struct {
	name  string
	data  map[string]string
	feeds []*lcFeed
}

// lcFeed is a live feed started through one handle of a store. It should run until the store is
// deleted or (on disk) its last handle is closed, whichever handle it was started through.
type lcFeed struct {
	log      *FeedLog
	id       string
	expected int  // events it must have received so far
	ended    bool // the model says it has ended
	unknown  bool // in-memory store without any open handle: whether it still runs is not specified
}

type lcHandle struct {
	b      *rosmar.Bucket
	name   string
	loc    string
	open   bool // not yet Closed through this handle
	store  *lcStore
	killed bool // its store was deleted through another handle
}

type e13 struct {
	p      *Program
	res    *RunResult
	root   string
	stores map[string]*lcStore // by location key: "mem:<name>" or dir path
	reg    map[string]string   // bucket name -> location key, for buckets the registry must know
	cnt    map[string]int      // bucket name -> open handles (model of the reference count)
	slots  []*lcHandle
	step   int
	logOn  bool
	n      int

	allFeeds []*lcFeed
	ttl      map[string]bool // stores (by location key) that have ever held a document with an expiry
	tainted  map[string]bool // directories into which a foreign file was dropped (they cannot be removed)
}

func (e *e13) logf(format string, args ...any) {
	if e.logOn {
		e.res.Log = append(e.res.Log, fmt.Sprintf(format, args...))
	}
}

func (e *e13) violate(oracle, format string, args ...any) *Violation {
	return &Violation{Tags: []string{"C13"}, Oracle: oracle, Msg: fmt.Sprintf(format, args...), Step: e.step}
}

func (e *e13) locKey(name, loc string) string {
	if loc == "mem" {
		return "mem:" + name
	}
	return filepath.Join(e.root, loc)
}

func (e *e13) url(loc string) string {
	if loc == "mem" {
		return rosmar.InMemoryURL
	}
	// (escaped the way a caller that builds the URL properly does; for plain names nothing changes)
	return "rosmar://" + (&url.URL{Path: filepath.Join(e.root, loc)}).EscapedPath()
}

// oddLoc is a directory whose name needs escaping in a URL (and whose escapes must be undone exactly once).
const oddLoc = "my dir%41é"

func RunE13(t *testing.T, p *Program, withLog bool) *RunResult {
	res := &RunResult{}
	res.Stats.Cells = map[string]int{}
	e := &e13{p: p, res: res, stores: map[string]*lcStore{}, reg: map[string]string{}, cnt: map[string]int{}, logOn: withLog}
	bo := RunBubble(t, func() { e.run() })
	if e.root != "" {
		_ = os.RemoveAll(e.root)
	}
	Uninstall()
	if bo.Panic != "" && res.Violation == nil && res.Trouble == "" {
		res.Trouble = "root panic: " + bo.Panic
	}
	if bo.Leaked && res.Violation == nil && res.Trouble == "" {
		res.Violation = &Violation{Tags: []string{"C13", "C20"}, Oracle: "lifecycle.leak", Msg: "after every bucket was closed and deleted, goroutines (database connections, feeds or timers) were still alive"}
	}
	return res
}

func (e *e13) run() {
	rosmar.VerifResetProcess()
	rosmar.VerifSetClock(nil)
	dir, err := os.MkdirTemp(scratchRoot(), "verif-lc-")
	if err != nil {
		e.res.Trouble = err.Error()
		return
	}
	e.root = dir
	e.slots = make([]*lcHandle, 5)
	var foreign []*Violation
	for i := range e.p.Ops {
		e.step = i
		op := &e.p.Ops[i]
		v := e.doStep(op)
		if v == nil {
			synctest.Wait()
			v = e.probeAll()
		}
		if v != nil {
			if e.p.Prop != "" && !v.Has(e.p.Prop) && len(foreign) < 3 {
				// another property's oracle: note it and go on, the property under check may be hit later
				// (its oracles rest on the model of handles and stores, not on what rosmar did so far)
				foreign = append(foreign, v)
				continue
			}
			e.res.Violation = v
			break
		}
	}
	if len(foreign) > 0 {
		if e.res.Violation == nil {
			e.res.Violation = foreign[0]
		} else {
			e.res.All = append([]*Violation{e.res.Violation}, foreign...)
		}
	}
	e.res.Stats.Ops = len(e.p.Ops)
	// teardown: delete everything that still exists
	for _, h := range e.slots {
		if h != nil && h.b != nil && h.open && !h.killed {
			_ = h.b.CloseAndDelete(context.Background())
			e.dropStore(h.name, e.locKey(h.name, h.loc))
		}
	}
	for name, lk := range e.reg {
		if st := e.stores[lk]; st != nil {
			loc := "mem"
			if !strings.HasPrefix(lk, "mem:") {
				loc = filepath.Base(lk)
			}
			if b, err := rosmar.OpenBucket(e.url(loc), name, rosmar.CreateOrOpen); err == nil {
				_ = b.CloseAndDelete(context.Background())
			}
		}
	}
	synctest.Wait()
}

func modeOf(s string) rosmar.OpenMode {
	switch s {
	case "new":
		return rosmar.CreateNew
	case "reopen":
		return rosmar.ReOpenExisting
	}
	return rosmar.CreateOrOpen
}

func (e *e13) doStep(op *Op) *Violation {
	slot := op.Handle
	switch op.Kind {
	case "Open":
		name, loc, mode := op.Key, op.Path, op.CasMode
		lk := e.locKey(name, loc)
		faulty := op.Amt > 0 && !e.ttl[lk]
		if faulty {
			// one statement of this open fails (not on a store that holds documents with an expiry: its
			// sweep may start at once on another goroutine, where a failing statement is a panic)
			ArmStmtFault(int(op.Amt))
		}
		b, err := rosmar.OpenBucket(e.url(loc), name, modeOf(mode))
		if faulty {
			DisarmStmtFault()
			if err != nil && injectedFailure(&Res{Err: EOther, ErrText: err.Error()}) {
				// the open was hit by the injected failure and said so: nothing may have changed - no new
				// registration, no reference taken, and above all an existing bucket still there
				// (probeAll looks at every handle, the registry and the directories)
				e.logf("#%d Open(slot %d, %s @%s, %s) failed under an injected statement failure", e.step, slot, name, loc, mode)
				if e.res.Stats.Faults == nil {
					e.res.Stats.Faults = map[string]int{}
				}
				e.res.Stats.Faults["statement-failed(open)"]++
				return nil
			}
		}
		regLoc, registered := e.reg[name]
		st := e.stores[lk]
		// what the statement fixes
		var wantOK, either bool
		var why string
		switch {
		case registered && mode == "new":
			wantOK, why = false, "CreateNew of a bucket that exists"
		case registered && regLoc != lk:
			wantOK, why = false, "the name is already open at another URL"
		case registered:
			wantOK, why = true, "the bucket is registered at this URL"
		case loc == "mem":
			wantOK, why = mode != "reopen", "in-memory bucket that does not exist"
		default:
			exists := st != nil
			switch mode {
			case "new":
				wantOK, why = !exists, fmt.Sprintf("CreateNew, bucket exists on disk: %v", exists)
			case "reopen":
				wantOK, why = exists, fmt.Sprintf("ReOpenExisting, bucket exists on disk: %v", exists)
			default:
				wantOK, why = true, "CreateOrOpen"
			}
			if exists && st.name != name {
				either = true // a directory created under another bucket name: not covered by the statement
			}
			if !exists && e.tainted[lk] && mode != "reopen" {
				either = true // the directory outlived the deletion of its bucket (foreign file in it)
			}
		}
		e.logf("#%d Open(slot %d, %s @%s, %s) -> err=%v   [%s]", e.step, slot, name, loc, mode, err != nil, why)
		e.res.Stats.Cells[fmt.Sprintf("open|%s|%s|registered=%v|%v", mode, ifelseS(loc == "mem", "mem", "disk"), registered, err == nil)]++
		if (err == nil) != wantOK && !either {
			return e.violate("open.outcome", "step %d OpenBucket(%q at %s, mode %s) returned err=%v, expected success=%v (%s)", e.step, name, loc, mode, err, wantOK, why)
		}
		if err != nil {
			return nil
		}
		if st == nil {
			st = &lcStore{name: name, data: map[string]string{}}
			e.stores[lk] = st
		}
		e.reg[name] = lk
		e.cnt[name]++
		if old := e.slots[slot]; old != nil && old.b != nil && old.open && !old.killed {
			// the generator never overwrites an open slot
			return e.violate("harness", "slot %d overwritten while open", slot)
		}
		e.slots[slot] = &lcHandle{b: b, name: name, loc: loc, open: true, store: st}
		if registered {
			e.res.Stats.NonTrivial = true
		}
	case "Close":
		h := e.slots[slot]
		if h == nil {
			return nil
		}
		wasOpen := h.open
		h.b.Close(context.Background())
		e.logf("#%d Close(slot %d %s) wasOpen=%v", e.step, slot, h.name, wasOpen)
		e.res.Stats.Cells[fmt.Sprintf("close|again=%v|%s", !wasOpen, h.loc)]++
		if wasOpen {
			h.open = false
			if !h.killed {
				e.cnt[h.name]--
				if e.cnt[h.name] == 0 && h.loc != "mem" {
					delete(e.reg, h.name) // last handle of an on-disk bucket: database closed, data stays
					for _, f := range h.store.feeds {
						f.ended = true
					}
					h.store.feeds = nil
				}
				if e.cnt[h.name] == 0 && h.loc == "mem" {
					for _, f := range h.store.feeds {
						f.unknown = true
					}
				}
			}
		} else {
			e.res.Stats.NonTrivial = true
		}
	case "CloseAndDelete":
		h := e.slots[slot]
		if h == nil || h.killed || !h.open {
			return nil // (deleting through a closed handle, or one of an already deleted bucket, is outside the statement)
		}
		err := h.b.CloseAndDelete(context.Background())
		e.logf("#%d CloseAndDelete(slot %d %s) -> %s", e.step, slot, h.name, strings.ReplaceAll(fmt.Sprint(err), e.root, "<root>"))
		e.res.Stats.Cells[fmt.Sprintf("closedelete|open=%v|killed=%v|%s", h.open, h.killed, h.loc)]++
		if h.killed || !h.open {
			// deleting through a handle that is already closed / whose store is gone: unspecified
			// by the statement; whatever it did, the model follows the registry afterwards
			if lk, ok := e.reg[h.name]; ok && lk == e.locKey(h.name, h.loc) && !h.killed {
				e.dropStore(h.name, lk)
			}
			h.open = false
			return nil
		}
		if err != nil && !e.tainted[e.locKey(h.name, h.loc)] {
			return e.violate("closedelete.error", "step %d CloseAndDelete through an open handle of %q failed: %v", e.step, h.name, err)
		}
		// (with a foreign file in the directory the removal of the directory fails and the call may say
		// so; the bucket is gone all the same: closed, unregistered, its database file removed)
		e.dropStore(h.name, e.locKey(h.name, h.loc))
		h.open = false
		e.res.Stats.NonTrivial = true
	case "StartFeed":
		h := e.slots[slot]
		if h == nil || !h.open || h.killed {
			return nil
		}
		ds := h.b.DefaultDataStore()
		if ds == nil {
			return nil // (probeAll reports broken handles)
		}
		e.n++
		f := &lcFeed{id: fmt.Sprintf("lf%d", e.n)}
		f.log = &FeedLog{ID: f.id, Done: make(chan struct{}), Term: make(chan bool)}
		args := sgbucket.FeedArguments{ID: f.id, Backfill: sgbucket.FeedNoBackfill, Terminator: f.log.Term, DoneChan: f.log.Done}
		if err := ds.(*rosmar.Collection).StartDCPFeed(context.Background(), args, f.log.callback, nil); err != nil {
			return &Violation{Tags: []string{"C16", "C13"}, Oracle: "lifecycle.feed-start", Msg: fmt.Sprintf("step %d: starting a feed through the open handle in slot %d of %q failed: %v", e.step, slot, h.name, err), Step: e.step}
		}
		h.store.feeds = append(h.store.feeds, f)
		e.allFeeds = append(e.allFeeds, f)
		e.logf("#%d StartFeed(slot %d %s) = %s", e.step, slot, h.name, f.id)
	case "Stray":
		// the environment misbehaves: somebody drops a file into the bucket's directory
		h := e.slots[slot]
		if h == nil || h.loc == "mem" || e.stores[e.locKey(h.name, h.loc)] == nil {
			return nil
		}
		lk := e.locKey(h.name, h.loc)
		if err := os.WriteFile(filepath.Join(lk, "zz-not-rosmar.txt"), []byte("x"), 0600); err == nil {
			if e.tainted == nil {
				e.tainted = map[string]bool{}
			}
			e.tainted[lk] = true
			e.logf("#%d Stray(%s)", e.step, h.loc)
		}
	case "Idle":
		// nothing happens for a while (simulated time): every store must still be there afterwards
		time.Sleep(time.Duration(op.Dur) * time.Second)
		e.logf("#%d Idle(%d s)", e.step, op.Dur)
	case "Write":
		h := e.slots[slot]
		if h == nil {
			return nil
		}
		e.n++
		val := fmt.Sprintf(`{"n":%d}`, e.n)
		err := e.dsOf(h, func(ds sgbucket.DataStore) error { return ds.Set(op.Key, 0, nil, []byte(val)) })
		e.logf("#%d Write(slot %d %s, %s) -> %v", e.step, slot, h.name, op.Key, err)
		if v := e.judgeCall("write", h, err); v != nil {
			return v
		}
		if err == nil {
			h.store.data[op.Key] = val
			e.wrote(h.store)
			if op.ExpVal > 0 {
				// an untracked document with a near deadline: it arms the bucket's expiry timer, which
				// must go on working (and harm nobody) whatever happens to the handles afterwards
				if e.dsOf(h, func(ds sgbucket.DataStore) error {
					return ds.Set(fmt.Sprintf("ttl%d", e.n), op.ExpVal, nil, []byte(val))
				}) == nil {
					e.wrote(h.store)
					if e.ttl == nil {
						e.ttl = map[string]bool{}
					}
					e.ttl[e.locKey(h.name, h.loc)] = true
				}
			}
		}
	}
	return nil
}

// wrote: a write to the store succeeded; every feed that should be running on it gets one event.
func (e *e13) wrote(st *lcStore) {
	for _, f := range st.feeds {
		if !f.ended {
			f.expected++
		}
	}
}

// checkFeeds: feeds that should run have received every event so far and are not done; feeds
// that should have ended are done.
func (e *e13) checkFeeds() *Violation {
	synctest.Wait()
	for _, f := range e.allFeeds {
		n := 0
		for _, ev := range f.log.Snapshot() {
			if ev.Opcode == sgbucket.FeedOpMutation || ev.Opcode == sgbucket.FeedOpDeletion {
				n++
			}
		}
		switch {
		case f.ended:
			if !f.log.IsDone() {
				return &Violation{Tags: []string{"C16"}, Oracle: "lifecycle.feed-not-ended", Msg: fmt.Sprintf("step %d: feed %s is still running although its bucket was deleted or the last handle of its on-disk bucket was closed", e.step, f.id), Step: e.step}
			}
		case f.unknown:
		default:
			if f.log.IsDone() {
				return &Violation{Tags: []string{"C16", "C13"}, Oracle: "lifecycle.feed-ended-early", Msg: fmt.Sprintf("step %d: feed %s has ended although its bucket still has open handles (closing other handles, or handles of another bucket of that name, must not stop it)", e.step, f.id), Step: e.step}
			}
			if n < f.expected {
				return &Violation{Tags: []string{"C16", "C08", "C13"}, Oracle: "lifecycle.feed-starved", Msg: fmt.Sprintf("step %d: feed %s has received %d of the %d mutations made to its bucket since it started", e.step, f.id, n, f.expected), Step: e.step}
			}
		}
	}
	return nil
}

func (e *e13) dropStore(name, lk string) {
	if st := e.stores[lk]; st != nil {
		for _, f := range st.feeds {
			f.ended = true
		}
	}
	delete(e.stores, lk)
	delete(e.reg, name)
	delete(e.cnt, name)
	for _, o := range e.slots {
		if o != nil && o.name == name && e.locKey(o.name, o.loc) == lk {
			o.killed = true
		}
	}
}

// dsOf runs fn on the handle's default data store, turning a nil store or a panic into an error.
func (e *e13) dsOf(h *lcHandle, fn func(ds sgbucket.DataStore) error) (err error) {
	defer func() {
		if r := recover(); r != nil {
			err = fmt.Errorf("PANIC: %v", r)
		}
	}()
	ds := h.b.DefaultDataStore()
	if ds == nil {
		return rosmar.ErrBucketClosed
	}
	return fn(ds)
}

// judgeCall decides whether the outcome of a data call through h is allowed.
func (e *e13) judgeCall(what string, h *lcHandle, err error) *Violation {
	if err != nil && strings.HasPrefix(err.Error(), "PANIC") {
		return &Violation{Tags: []string{"C13", "C20"}, Oracle: "handle.panic", Msg: fmt.Sprintf("step %d: a %s through a handle of %q panicked: %v", e.step, what, h.name, err), Step: e.step}
	}
	switch {
	case h.killed:
		// the store was deleted under this handle: the call must fail (any error)
		if err == nil {
			return e.violate("deleted.still-works", "step %d: a %s through a handle of %q succeeded although the bucket was deleted through another handle", e.step, what, h.name)
		}
	case !h.open:
		if err == nil {
			return e.violate("closed.still-works", "step %d: a %s through a CLOSED handle of %q succeeded", e.step, what, h.name)
		}
		if c := classify(err); c != EClosed {
			return e.violate("closed.wrong-error", "step %d: a %s through a closed handle of %q failed with %q, not with the bucket-closed error", e.step, what, h.name, err)
		}
	default:
		if err != nil {
			if _, missing := err.(sgbucket.MissingError); missing && what == "read" {
				return nil
			}
			return e.violate("open.broken", "step %d: a %s through an OPEN handle of %q failed: %v (closing or deleting other handles must not disable this one)", e.step, what, h.name, err)
		}
	}
	return nil
}

// probeAll: every handle is read and written, the registry listing and the directories are compared.
func (e *e13) probeAll() *Violation {
	for si, h := range e.slots {
		if h == nil {
			continue
		}
		// read every key the store should hold
		if h.open && !h.killed {
			for _, k := range sortedKeys(h.store.data) {
				var got []byte
				err := e.dsOf(h, func(ds sgbucket.DataStore) error {
					var err error
					got, _, err = ds.GetRaw(k)
					return err
				})
				if err != nil {
					return e.violate("open.broken", "step %d: reading %q through the open handle in slot %d of %q failed: %v (closing or deleting other handles must not disable this one; data must survive)", e.step, k, si, h.name, err)
				}
				if string(got) != h.store.data[k] {
					return e.violate("shared.data", "step %d: slot %d of %q reads %q = %s, the store holds %s (all handles share one store)", e.step, si, h.name, k, got, h.store.data[k])
				}
			}
		}
		e.n++
		val := fmt.Sprintf(`{"p":%d}`, e.n)
		key := fmt.Sprintf("probe%d", si)
		err := e.dsOf(h, func(ds sgbucket.DataStore) error { return ds.Set(key, 0, nil, []byte(val)) })
		if v := e.judgeCall("write", h, err); v != nil {
			return v
		}
		if err == nil {
			h.store.data[key] = val
			e.wrote(h.store)
		}
		err = e.dsOf(h, func(ds sgbucket.DataStore) error { _, _, err := ds.GetRaw(key); return err })
		if v := e.judgeCall("read", h, err); v != nil {
			return v
		}
	}
	if v := e.checkFeeds(); v != nil {
		return v
	}
	// registry listing: an open bucket is listed, a deleted one is not
	listed := map[string]bool{}
	for _, n := range rosmar.GetBucketNames() {
		listed[n] = true
	}
	for _, h := range e.slots {
		if h != nil && h.open && !h.killed && !listed[h.name] {
			return e.violate("registry.missing", "step %d: bucket %q has an open handle but GetBucketNames() = %v", e.step, h.name, keysOfSet(listed))
		}
	}
	var ls []string
	for n := range listed {
		ls = append(ls, n)
	}
	sort.Strings(ls)
	for _, n := range ls {
		if _, ok := e.reg[n]; !ok {
			if _, everMem := e.stores["mem:"+n]; everMem {
				continue
			}
			return e.violate("registry.stale", "step %d: GetBucketNames() lists %q, which has been deleted or has no open handle left (on disk)", e.step, n)
		}
	}
	// directories
	for _, loc := range []string{"dirA", "dirB", "dira", oddLoc} {
		lk := filepath.Join(e.root, loc)
		_, statErr := os.Stat(filepath.Join(lk, "rosmar.sqlite3"))
		if e.stores[lk] != nil && statErr != nil {
			return e.violate("disk.missing", "step %d: the on-disk bucket at %s should exist (not deleted) but its database file is gone", e.step, loc)
		}
		if e.stores[lk] == nil && statErr == nil {
			return e.violate("disk.leftover", "step %d: the on-disk bucket at %s was deleted but its database file still exists", e.step, loc)
		}
	}
	return nil
}

// GenE13 builds a lifecycle script.
func GenE13(prop string, seed uint64) *Program {
	r := NewRng(seed ^ 0x1313)
	prog := &Program{Engine: "e13", Prop: prop, Seed: seed}
	names := []string{"ba", "bb"}
	locs := []string{"mem", "dirA", "dirB"}
	if r.Chance(30) {
		locs = []string{"mem"}
	} else if r.Chance(30) {
		locs = []string{"dirA", "dirB"}
	} else if r.Chance(30) {
		locs = []string{"dirA", "dira"} // two directories whose URLs differ only in case
	} else if r.Chance(40) {
		locs = []string{"mem", oddLoc, "dirB"}
	}
	modes := []string{"any", "any", "new", "reopen"}
	withFeeds := prop == "C16" || r.Chance(30)
	withStray := r.Chance(25)
	type slotState struct{ used, open bool }
	slots := make([]slotState, 5)
	// which name a directory was created under (the generator keeps one name per directory)
	dirName := map[string]string{}
	n := 6 + r.Intn(18)
	for i := 0; i < n; i++ {
		free := -1
		for s := range slots {
			if !slots[s].open {
				free = s
				break
			}
		}
		var used []int
		for s := range slots {
			if slots[s].used {
				used = append(used, s)
			}
		}
		t := r.Intn(100)
		switch {
		case (t < 35 || len(used) == 0) && free >= 0:
			name := names[r.Intn(len(names))]
			loc := locs[r.Intn(len(locs))]
			if loc != "mem" {
				if dn, ok := dirName[loc]; ok {
					name = dn // one bucket name per directory (opening a directory under another name is not covered by the statement)
				}
				if _, ok := dirName[loc]; !ok {
					dirName[loc] = name
				}
			}
			op := Op{Kind: "Open", Handle: free, Key: name, Path: loc, CasMode: modes[r.Intn(len(modes))]}
			if r.Chance(12) {
				op.Amt = uint64(1 + r.Intn(30))
			}
			prog.Ops = append(prog.Ops, op)
			slots[free] = slotState{used: true, open: true} // (if the open fails the slot simply stays as it was)
		case t < 60 && len(used) > 0:
			s := used[r.Intn(len(used))]
			prog.Ops = append(prog.Ops, Op{Kind: "Close", Handle: s})
			slots[s].open = false
		case t < 72 && len(used) > 0:
			s := used[r.Intn(len(used))]
			prog.Ops = append(prog.Ops, Op{Kind: "CloseAndDelete", Handle: s})
			slots[s].open = false
			for d := range dirName {
				_ = d
			}
		case t >= 84 && t < 87 && len(used) > 0 && withStray:
			prog.Ops = append(prog.Ops, Op{Kind: "Stray", Handle: used[r.Intn(len(used))]})
		case t < 84 && t >= 78 && len(used) > 0 && withFeeds:
			prog.Ops = append(prog.Ops, Op{Kind: "StartFeed", Handle: used[r.Intn(len(used))]})
		case t < 78 && len(used) > 0:
			prog.Ops = append(prog.Ops, Op{Kind: "Idle", Dur: []int{2, 10, 90, 700, 4000}[r.Intn(5)]})
		case len(used) > 0:
			s := used[r.Intn(len(used))]
			w := Op{Kind: "Write", Handle: s, Key: fmt.Sprintf("k%d", r.Intn(3))}
			if r.Chance(20) {
				w.ExpVal = uint32(1 + r.Intn(3))
			}
			prog.Ops = append(prog.Ops, w)
		}
	}
	return prog
}
