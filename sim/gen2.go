package sim

import (
	"fmt"
	"sort"

	sgbucket "github.com/couchbase/sg-bucket"
)

// ---------------------------------------------------------------------------------------
// Generation of concurrent programs (E2).
// ---------------------------------------------------------------------------------------

var e2Weights = map[string]weights{
	// general linearizability mix
	"lin": {"GetRaw": 6, "GetWithXattrs": 4, "Exists": 1, "GetExpiry": 1, "Set": 5, "SetRaw": 2, "Add": 3, "WriteCas": 8, "Remove": 3, "Delete": 3,
		"Incr": 6, "Update": 8, "WriteUpdateWithXattrs": 6, "SetXattrs": 3, "UpdateXattrs": 4, "WriteWithXattrs": 4, "RemoveXattrs": 1,
		"WriteTombstoneWithXattrs": 2, "WriteResurrectionWithXattrs": 1, "DeleteWithXattrs": 1, "WriteSubDoc": 4, "SubdocInsert": 2,
		"Touch": 2, "GetAndTouchRaw": 1, "DeleteSubDocPaths": 1, "GetSubDocRaw": 1},
	// C01: plain reads and writes with expiries, what a reader sees is the last successful write
	"lin-rw": {"GetRaw": 8, "GetWithXattrs": 4, "Exists": 2, "GetExpiry": 3, "Set": 6, "SetRaw": 3, "Add": 3, "AddRaw": 1, "WriteCas": 8, "Remove": 2, "Delete": 3,
		"Incr": 2, "Update": 4, "WriteSubDoc": 4, "SubdocInsert": 1, "Touch": 3, "GetAndTouchRaw": 2, "SetXattrs": 1},
	// C05: deletions and resurrections through every path, observed by every reader
	"lin-tomb": {"GetRaw": 5, "GetWithXattrs": 6, "Exists": 2, "Delete": 6, "Remove": 3, "WriteTombstoneWithXattrs": 3, "DeleteWithXattrs": 3, "Update": 5,
		"WriteUpdateWithXattrs": 4, "WriteSubDoc": 6, "SubdocInsert": 2, "WriteCas": 6, "Add": 4, "Set": 3, "SetXattrs": 3, "WriteResurrectionWithXattrs": 2,
		"WriteWithXattrs": 3, "Incr": 1},
	// C07: xattr writes against body writes and touches; what is not named must survive
	"lin-xattr": {"GetWithXattrs": 8, "GetExpiry": 4, "GetRaw": 2, "SetXattrs": 5, "UpdateXattrs": 6, "WriteWithXattrs": 8, "RemoveXattrs": 2, "DeleteSubDocPaths": 2,
		"WriteUpdateWithXattrs": 5, "Touch": 6, "GetAndTouchRaw": 3, "Set": 4, "WriteCas": 3, "WriteSubDoc": 2, "Delete": 1, "DeleteWithXattrs": 1},
	// counters and read-modify-write loops only
	"rmw": {"GetRaw": 3, "Incr": 12, "Update": 10, "WriteUpdateWithXattrs": 6, "Set": 2, "Delete": 1, "WriteSubDoc": 4},
	// writers for the feed oracles
	"feeds": {"Set": 6, "SetRaw": 3, "Add": 4, "WriteCas": 6, "Remove": 2, "Delete": 4, "Incr": 3, "Update": 4, "WriteUpdateWithXattrs": 3,
		"SetXattrs": 3, "UpdateXattrs": 3, "WriteWithXattrs": 4, "WriteTombstoneWithXattrs": 2, "WriteResurrectionWithXattrs": 2,
		"DeleteWithXattrs": 2, "WriteSubDoc": 2, "Touch": 2, "DeleteSubDocPaths": 1, "RemoveXattrs": 1, "GetRaw": 2},
}

func pickStrategy(r *Rng) (string, int) {
	switch t := r.Intn(100); {
	case t < 35:
		return StratRandom, 0
	case t < 55:
		return StratPCT, 1 + r.Intn(3)
	case t < 75:
		return StratRTC, 5 + r.Intn(30)
	case t < 82:
		return StratBgLast, 0
	case t < 89:
		return StratBgFirst, 0
	default:
		return StratStarve, 5 + r.Intn(40)
	}
}

func (g *gen) weighted(w weights) string {
	kinds := make([]string, 0, len(w))
	total := 0
	for k := range w {
		kinds = append(kinds, k)
	}
	sort.Strings(kinds)
	for _, k := range kinds {
		total += w[k]
	}
	t := g.r.Intn(total)
	for _, k := range kinds {
		if t < w[k] {
			return k
		}
		t -= w[k]
	}
	return kinds[0]
}

// e2op builds one data operation for a concurrent program.
func (g *gen) e2op(kind string, nh int) Op {
	var op Op
	switch kind {
	case "GetRaw", "Exists", "GetExpiry":
		op = Op{Kind: kind, Key: g.keys[g.r.Intn(len(g.keys))], Coll: g.r.Intn(g.ncoll)}
	case "GetWithXattrs":
		op = Op{Kind: kind, Key: g.keys[g.r.Intn(len(g.keys))], Coll: g.r.Intn(g.ncoll), XNames: append(append([]string{}, allXattrNames...), "$document")}
	case "GetSubDocRaw":
		op = Op{Kind: kind, Key: g.keys[g.r.Intn(len(g.keys))], Coll: g.r.Intn(g.ncoll), Path: g.subPath()}
	case "View":
		// (plain parameters only: sg-bucket, a trusted dependency, panics on group_level over keys that
		// are not arrays, and a concurrent run does not know which map function the view has by then)
		op = Op{Kind: kind, Coll: 0, Key: []string{"dd1", "dd2"}[g.r.Intn(2)], Path: []string{"v1", "v2"}[g.r.Intn(2)],
			Body: strp([]string{`{"stale":false}`, `{"stale":"ok"}`, `{"stale":false,"reduce":false}`, `{"stale":false,"descending":true,"limit":2}`}[g.r.Intn(4)])}
	default:
		op = g.op(kind)
	}
	if op.ExpKind == 1 {
		op.ExpKind = 2 // absolute only: a relative expiry is anchored at an unknown instant of a concurrent run
	}
	if op.ExpKind == 3 {
		op.ExpKind = 0
	}
	for i := range op.Cb {
		_ = i
	}
	op.Handle = g.r.Intn(nh)
	if op.CasMode == "cur" || op.CasMode == "stale" || op.CasMode == "bogus" || op.CasMode == "zero" {
		// in concurrent runs "cur" is what this client last saw
		if g.r.Chance(70) && op.CasMode != "zero" {
			op.CasMode = "cur"
		}
	}
	return op
}

func (g *gen) setupDocs(prog *Program, livePct int) {
	for c := 0; c < g.ncoll; c++ {
		for _, k := range g.keys {
			t := g.r.Intn(100)
			switch {
			case t < livePct:
				body := g.jsonBody()
				if g.r.Chance(15) {
					body = fmt.Sprintf("%d", g.r.Intn(50))
				}
				prog.Setup = append(prog.Setup, Op{Kind: "Set", Coll: c, Key: k, Body: strp(body)})
				if g.r.Chance(40) {
					prog.Setup = append(prog.Setup, Op{Kind: "SetXattrs", Coll: c, Key: k, Xattrs: g.xattrSet(1, 2)})
				}
			case t < livePct+15:
				prog.Setup = append(prog.Setup, Op{Kind: "Set", Coll: c, Key: k, Body: strp(g.jsonBody())})
				if g.r.Chance(50) {
					prog.Setup = append(prog.Setup, Op{Kind: "SetXattrs", Coll: c, Key: k, Xattrs: g.xattrSet(1, 2)})
				}
				prog.Setup = append(prog.Setup, Op{Kind: "Delete", Coll: c, Key: k})
			}
		}
	}
}

// GenE2 builds the concurrent program of one seed for a property.
func GenE2(prop string, seed uint64) *Program {
	r := NewRng(seed ^ 0xE2E2E2E2)
	g := &gen{r: r, p: Profile{ExpPct: 10, SmallDoc: 0}}
	prog := &Program{Engine: "e2", Seed: seed, SchedSeed: r.U64() >> 1}
	prog.Strategy, prog.StratArg = pickStrategy(r)
	prog.OnDisk = r.Chance(12)
	prog.NColl = 1
	prog.NHandles = 1 + r.Intn(3)
	nk := 1 + r.Intn(2)
	scenario := "lin"
	switch prop {
	case "C03":
		scenario = []string{"lin", "lin", "rmw"}[r.Intn(3)]
	case "C04":
		scenario = "lin"
	case "C01":
		scenario = "lin-rw"
	case "C05":
		scenario = "lin-tomb"
	case "C07":
		scenario = "lin-xattr"
		nk = 1
	case "C02":
		scenario = "casrace"
		nk = 1
	case "C17":
		scenario = "rev-race"
		nk = 1
	case "C18":
		scenario = []string{"subdoc-distinct", "subdoc-mixed"}[r.Intn(2)]
		nk = 1
	case "C08":
		scenario = "feeds"
		prog.NColl = 1 + r.Intn(2)
		nk = 1 + r.Intn(3)
	case "C09":
		scenario = "backfill-race"
		prog.NColl = 1 + r.Intn(2)
		nk = 1 + r.Intn(3)
	case "C14":
		scenario = "expiry-race"
		nk = 1
		prog.OnDisk = r.Chance(25)
	case "C15":
		scenario = "ckpt"
		nk = 1 + r.Intn(3)
		if r.Chance(30) {
			prog.NColl = 2 // a bucket-level checkpointed feed over both collections
		}
	case "C06":
		scenario = "insert-race"
		nk = 1
	case "C11", "C12":
		scenario = "view-race"
		prog.NColl = 2
		nk = 1 + r.Intn(3)
	case "C13":
		scenario = "openclose"
		prog.NHandles = 1
		prog.OnDisk = r.Chance(70)
		nk = 1
	case "C16":
		scenario = "term"
		prog.NColl = 2
		prog.NHandles = 2
		prog.OnDisk = r.Chance(50)
		nk = 1 + r.Intn(2)
	case "C20":
		scenario = "shutdown"
		prog.NColl = 1 + r.Intn(2)
		prog.NHandles = 1 + r.Intn(2)
		prog.OnDisk = r.Chance(40)
		nk = 1 + r.Intn(2)
	}
	prog.Scenario = scenario
	g.ncoll = prog.NColl
	for i := 0; i < nk; i++ {
		g.keys = append(g.keys, fmt.Sprintf("k%d", i+1))
	}
	nt := 2 + r.Intn(3)
	switch scenario {
	case "lin", "rmw", "lin-rw", "lin-tomb", "lin-xattr":
		g.setupDocs(prog, 60)
		w := e2Weights[scenario]
		if scenario == "lin-xattr" && r.Chance(35) {
			// writes that must keep the expiry as it is at the moment they are applied, racing with touches
			// (which change the expiry but not the CAS) and with writes that give a new one
			prog.Setup = append(prog.Setup, Op{Kind: "Set", Key: g.keys[0], Body: strp(g.jsonBody()), ExpKind: 2, ExpVal: uint32(5000 + r.Intn(1000))})
			for t := 0; t < 1+r.Intn(2); t++ {
				var op Op
				switch r.Intn(4) {
				case 0, 1:
					op = g.e2op("WriteWithXattrs", prog.NHandles)
					op.CasMode = "cur"
				case 2:
					op = g.e2op("WriteUpdateWithXattrs", prog.NHandles)
				default:
					op = g.e2op("Set", prog.NHandles)
					op.ExpKind = 0
				}
				op.Key, op.Coll, op.Preserve = g.keys[0], 0, true
				prog.Tasks = append(prog.Tasks, []Op{{Kind: "GetWithXattrs", Key: g.keys[0], XNames: append(append([]string{}, allXattrNames...), "$document")}, op})
			}
			for t := 0; t < 1+r.Intn(2); t++ {
				op := g.e2op([]string{"Touch", "Touch", "GetAndTouchRaw"}[r.Intn(3)], prog.NHandles)
				op.Key, op.Coll = g.keys[0], 0
				op.ExpKind, op.ExpVal = 2, uint32(7000+r.Intn(1000))
				if r.Chance(25) {
					op.ExpKind, op.ExpVal = 0, 0
				}
				prog.Tasks = append(prog.Tasks, []Op{op})
			}
			break
		}
		for t := 0; t < nt; t++ {
			n := 2 + r.Intn(5)
			var ops []Op
			for i := 0; i < n; i++ {
				ops = append(ops, g.e2op(g.weighted(w), prog.NHandles))
			}
			prog.Tasks = append(prog.Tasks, ops)
		}
		if (scenario == "lin" || scenario == "rmw") && r.Chance(30) {
			// the process opens (and drops) an unrelated bucket meanwhile: the clock all buckets share must not notice
			prog.Tasks = append(prog.Tasks, []Op{{Kind: "OpenOther"}})
		}
	case "casrace":
		// every client reads the same version and tries to replace it through its own conditional entry point
		g.setupDocs(prog, 85)
		conds := []string{"WriteCas", "WriteCas", "Remove", "WriteWithXattrs", "WriteTombstoneWithXattrs", "UpdateXattrs", "RemoveXattrs", "WriteSubDoc", "SubdocInsert"}
		for t := 0; t < nt; t++ {
			var ops []Op
			rounds := 1 + r.Intn(2)
			for j := 0; j < rounds; j++ {
				rd := g.e2op([]string{"GetRaw", "GetWithXattrs"}[r.Intn(2)], prog.NHandles)
				rd.Key, rd.Coll = g.keys[0], 0
				ops = append(ops, rd)
				op := g.e2op(conds[r.Intn(len(conds))], prog.NHandles)
				op.Key, op.Coll, op.CasMode = g.keys[0], 0, "cur"
				if op.Kind == "WriteCas" {
					op.WOpt &^= int(sgbucket.AddOnly)
				}
				if op.Kind == "RemoveXattrs" && len(prog.Setup) > 0 {
					op.XDel = allXattrNames[:1+r.Intn(2)]
				}
				ops = append(ops, op)
			}
			prog.Tasks = append(prog.Tasks, ops)
		}
	case "subdoc-distinct", "subdoc-mixed":
		switch t := r.Intn(10); {
		case t < 7:
			prog.Setup = append(prog.Setup, Op{Kind: "Set", Key: g.keys[0], Body: strp(`{"a":{"b":1},"base":0}`)})
		case t < 8: // a tombstone
			prog.Setup = append(prog.Setup, Op{Kind: "Set", Key: g.keys[0], Body: strp(`{"a":{"b":1},"base":0}`)}, Op{Kind: "Delete", Key: g.keys[0]})
		default: // no document yet: the sub-document writers race with whoever creates it
		}
		if len(prog.Setup) != 1 {
			var ops []Op
			pick := r.Intn(3)
			if pick == 1 && scenario == "subdoc-distinct" {
				pick = 0 // (a plain Set may legitimately overwrite what the sub-document writers did)
			}
			switch pick {
			case 0:
				ops = append(ops, Op{Kind: "Add", Key: g.keys[0], Body: strp(fmt.Sprintf(`{"a":{"b":3},"made":%d}`, g.uniq())), Handle: r.Intn(prog.NHandles)})
			case 1:
				ops = append(ops, Op{Kind: "Set", Key: g.keys[0], Body: strp(fmt.Sprintf(`{"a":{"b":3},"made":%d}`, g.uniq())), Handle: r.Intn(prog.NHandles)})
			default:
				ops = append(ops, Op{Kind: "WriteCas", Key: g.keys[0], Body: strp(fmt.Sprintf(`{"a":{"b":3},"made":%d}`, g.uniq())), CasMode: "zero", Handle: r.Intn(prog.NHandles)})
			}
			prog.Tasks = append(prog.Tasks, ops)
		}
		for t := 0; t < nt; t++ {
			var ops []Op
			n := 1 + r.Intn(3)
			for i := 0; i < n; i++ {
				kind := "WriteSubDoc"
				if r.Chance(30) {
					kind = "SubdocInsert"
				}
				op := Op{Kind: kind, Key: g.keys[0], Path: fmt.Sprintf("p%d_%d", t, i), Body: strp(fmt.Sprintf("%d", g.uniq())), CasMode: "zero", Handle: r.Intn(prog.NHandles)}
				if r.Chance(15) {
					op.Path = fmt.Sprintf("a.q%d_%d", t, i)
				}
				ops = append(ops, op)
			}
			prog.Tasks = append(prog.Tasks, ops)
		}
		if scenario == "subdoc-mixed" {
			var ops []Op
			for i := 0; i < 1+r.Intn(2); i++ {
				switch r.Intn(4) {
				case 0:
					ops = append(ops, Op{Kind: "Set", Key: g.keys[0], Body: strp(fmt.Sprintf(`{"a":{"b":2},"whole":%d}`, g.uniq())), Handle: r.Intn(prog.NHandles)})
				case 1:
					ops = append(ops, Op{Kind: "GetRaw", Key: g.keys[0]}, Op{Kind: "WriteSubDoc", Key: g.keys[0], Path: "base", Body: strp(fmt.Sprintf("%d", g.uniq())), CasMode: "cur"})
				case 2:
					ops = append(ops, Op{Kind: "SetXattrs", Key: g.keys[0], Xattrs: g.xattrSet(1, 1)})
				default:
					ops = append(ops, Op{Kind: "GetSubDocRaw", Key: g.keys[0], Path: "a"})
				}
			}
			prog.Tasks = append(prog.Tasks, ops)
		}
	case "feeds":
		g.setupDocs(prog, 40)
		nf := 1 + r.Intn(3)
		for i := 0; i < nf; i++ {
			fs := FeedSpec{ID: fmt.Sprintf("f%d", i), Handle: r.Intn(prog.NHandles), Coll: r.Intn(prog.NColl), Stable: true}
			switch r.Intn(6) {
			case 0:
				fs.KeysOnly = true
			case 1:
				if prog.NColl > 1 {
					fs.Bucket = true
				}
			}
			prog.Feeds = append(prog.Feeds, fs)
		}
		if r.Chance(35) {
			// feeds that were registered before the stable ones are stopped while the writers run: the
			// feeds behind them in the collection's list must still get every event exactly once
			coll := prog.Feeds[0].Coll
			for i := range prog.Feeds {
				if !prog.Feeds[i].Bucket {
					prog.Feeds[i].Coll = coll
				}
			}
			if len(prog.Feeds) < 2 {
				prog.Feeds = append(prog.Feeds, FeedSpec{ID: "f9", Handle: r.Intn(prog.NHandles), Coll: coll, Stable: true})
			}
			var victims []FeedSpec
			for i := 0; i < 1+r.Intn(2); i++ {
				victims = append(victims, FeedSpec{ID: fmt.Sprintf("v%d", i), Handle: r.Intn(prog.NHandles), Coll: coll})
			}
			prog.Feeds = append(victims, prog.Feeds...)
			var ctl []Op
			for i := range victims {
				ctl = append(ctl, Op{Kind: "StopFeed", Feed: &victims[i]})
			}
			if r.Chance(50) {
				ctl = append(ctl, g.e2op("Set", prog.NHandles))
			}
			prog.Tasks = append(prog.Tasks, ctl)
		}
		nt = 1 + r.Intn(3)
		w := e2Weights["feeds"]
		for t := 0; t < nt; t++ {
			n := 2 + r.Intn(5)
			var ops []Op
			for i := 0; i < n; i++ {
				ops = append(ops, g.e2op(g.weighted(w), prog.NHandles))
			}
			prog.Tasks = append(prog.Tasks, ops)
		}
		if prog.NHandles > 1 && r.Chance(35) {
			// one of several handles is closed while the writers run: feeds started through it must go on
			// receiving what the other handles write (writes through the closed handle simply fail)
			prog.Tasks = append(prog.Tasks, []Op{{Kind: "Close", Handle: r.Intn(prog.NHandles)}})
			prog.NoLin = true
		}
	}
	switch scenario {
	case "lin", "rmw", "lin-rw", "lin-tomb", "lin-xattr", "casrace", "subdoc-distinct", "subdoc-mixed", "feeds", "rev-race", "insert-race":
		// separate fault-injecting configuration of the concurrent runs
		if r.Chance(20) {
			for i := 0; i < 1+r.Intn(2); i++ { // some commit attempt of the run fails with BUSY and is retried
				prog.Faults = append(prog.Faults, FaultSpec{Kind: 5, AtOp: 1 + r.Intn(8)})
			}
		}
		if r.Chance(20) && len(prog.Tasks) > 0 {
			for i := 0; i < 1+r.Intn(2); i++ { // one statement of some client operation fails
				t := r.Intn(len(prog.Tasks))
				if len(prog.Tasks[t]) > 0 {
					prog.Faults = append(prog.Faults, FaultSpec{Kind: 6, AtOp: t*100 + r.Intn(len(prog.Tasks[t])), Offset: r.Intn(24)})
				}
			}
		}
	}
	defer func() {
		// feeds started by clients in mid-run: one statement of such a start sometimes fails (the call
		// must then fail as a whole, or work completely)
		switch scenario {
		case "backfill-race", "ckpt", "term", "shutdown":
		default:
			return
		}
		var starts []int
		for t, ops := range prog.Tasks {
			for i, o := range ops {
				if o.Kind == "StartFeed" {
					starts = append(starts, t*100+i)
				}
			}
		}
		if len(starts) > 0 && r.Chance(25) {
			prog.Faults = append(prog.Faults, FaultSpec{Kind: 6, AtOp: starts[r.Intn(len(starts))], Offset: r.Intn(30)})
		}
		if r.Chance(20) { // some commit attempt of the run fails with BUSY and is retried
			prog.Faults = append(prog.Faults, FaultSpec{Kind: 5, AtOp: 1 + r.Intn(10)})
		}
	}()
	switch scenario {
	case "backfill-race":
		g.setupDocs(prog, 60)
		prog.NoLin = false
		w := e2Weights["feeds"]
		for t := 0; t < 1+r.Intn(2); t++ {
			var ops []Op
			for i := 0; i < 2+r.Intn(4); i++ {
				ops = append(ops, g.e2op(g.weighted(w), prog.NHandles))
			}
			prog.Tasks = append(prog.Tasks, ops)
		}
		for i := 0; i < 1+r.Intn(2); i++ {
			fs := FeedSpec{ID: fmt.Sprintf("bf%d", i), Handle: r.Intn(prog.NHandles), Coll: r.Intn(prog.NColl), Backfill: "zero"}
			var ops []Op
			if r.Chance(40) { // let a write go first
				ops = append(ops, g.e2op("Set", prog.NHandles))
			}
			ops = append(ops, Op{Kind: "StartFeed", Feed: &fs})
			prog.Tasks = append(prog.Tasks, ops)
		}
	case "ckpt":
		if r.Chance(40) {
			g.keys = append(g.keys, "cp-notes") // a user document whose key begins with the feed's checkpoint prefix
		}
		// the clock stands still in these runs, so CAS values are consecutive integers: start them at an
		// arbitrary offset (checkpoints are JSON numbers near 2^60)
		prog.Setup = append(prog.Setup, Op{Kind: "HLCBurn", Dur: r.Intn(400)})
		g.setupDocs(prog, 50)
		w := weights{"Set": 6, "SetRaw": 2, "Add": 3, "WriteCas": 4, "Delete": 4, "Incr": 3, "Update": 3, "SetXattrs": 2, "WriteWithXattrs": 3, "Remove": 1, "WriteUpdateWithXattrs": 2}
		for t := 0; t < 1+r.Intn(2); t++ {
			var ops []Op
			for i := 0; i < 2+r.Intn(5); i++ {
				ops = append(ops, g.e2op(g.weighted(w), prog.NHandles))
			}
			prog.Tasks = append(prog.Tasks, ops)
		}
		var ctl []Op
		runs := 1 + r.Intn(3)
		bucketLevel := prog.NColl > 1
		extras := r.Chance(40)
		for i := 1; i <= runs; i++ {
			fs := FeedSpec{ID: "ck", Handle: r.Intn(prog.NHandles), Coll: 0, Backfill: "resume", Ckpt: "cp", Run: i, Bucket: bucketLevel}
			ctl = append(ctl, Op{Kind: "StartFeed", Feed: &fs})
			if extras && r.Chance(60) {
				// an unrelated live feed registered behind this run (and behind the dead earlier runs)
				x := FeedSpec{ID: fmt.Sprintf("x%d", i), Handle: r.Intn(prog.NHandles), Coll: 0}
				ctl = append(ctl, Op{Kind: "StartFeed", Feed: &x})
			}
			for j := r.Intn(4); j > 0; j-- {
				ctl = append(ctl, g.e2op(g.weighted(w), prog.NHandles))
			}
			ctl = append(ctl, Op{Kind: "StopFeed", Feed: &fs}, Op{Kind: "WaitFeed", Feed: &fs}, Op{Kind: "GetRaw", Key: "cp:ck"})
		}
		prog.Tasks = append(prog.Tasks, ctl)
		prog.NoLin = true // (the feed's own checkpoint writes are not in the clients' history)
	case "term":
		g.setupDocs(prog, 40)
		nf := 2 + r.Intn(3)
		var ids []FeedSpec
		for i := 0; i < nf; i++ {
			fs := FeedSpec{ID: fmt.Sprintf("f%d", i), Handle: r.Intn(2), Coll: r.Intn(2)}
			switch r.Intn(7) {
			case 0:
				fs.KeysOnly = true
			case 1:
				fs.Bucket = true
			case 2:
				fs.Backfill = "zero"
			case 3:
				fs.Backfill, fs.Ckpt = "resume", fmt.Sprintf("cp%d", i) // writes a checkpoint when it ends
			}
			prog.Feeds = append(prog.Feeds, fs)
			ids = append(ids, fs)
		}
		w := weights{"Set": 6, "Add": 2, "Delete": 3, "Incr": 2, "WriteCas": 2, "SetXattrs": 1}
		var wr []Op
		for i := 0; i < 2+r.Intn(4); i++ {
			wr = append(wr, g.e2op(g.weighted(w), 2))
		}
		prog.Tasks = append(prog.Tasks, wr)
		var ctl []Op
		usedClose := map[int]bool{}
		deleted := false
		for i := 0; i < 1+r.Intn(4) && !deleted; i++ {
			switch t := r.Intn(10); {
			case t < 4:
				fs := ids[r.Intn(len(ids))]
				ctl = append(ctl, Op{Kind: "StopFeed", Feed: &fs})
			case t < 6:
				ctl = append(ctl, Op{Kind: "DropColl", Coll: 1, Handle: r.Intn(2)})
			case t < 7:
				fs := FeedSpec{ID: fmt.Sprintf("dump%d", i), Handle: r.Intn(2), Coll: r.Intn(2), Backfill: "zero", Dump: true}
				if r.Chance(40) {
					// a bucket-level feed over both collections joins in mid-run (its start may be hit by an
					// injected failure: that must not cost the feeds already running anything)
					fs = FeedSpec{ID: fmt.Sprintf("late%d", i), Handle: r.Intn(2), Bucket: true, Backfill: []string{"", "zero"}[r.Intn(2)]}
				}
				ctl = append(ctl, Op{Kind: "StartFeed", Feed: &fs})
			case t < 9:
				h := r.Intn(2)
				if !usedClose[h] {
					usedClose[h] = true
					ctl = append(ctl, Op{Kind: "Close", Handle: h})
				}
			default:
				h := r.Intn(2)
				if !usedClose[h] {
					ctl = append(ctl, Op{Kind: "CloseAndDelete", Handle: h})
					deleted = true
				}
			}
		}
		// writes through a closed handle are expected to fail; keep the writer on handles it may lose
		if r.Chance(50) {
			prog.Tasks = append(prog.Tasks, ctl)
		} else { // one controller per action: more interleavings between the terminating actions
			for _, c := range ctl {
				prog.Tasks = append(prog.Tasks, []Op{c})
			}
		}
		prog.NoLin = true
		prog.NoFeedOracle = true
	case "expiry-race":
		// a document is about to expire; clients that sleep until around its deadline then lengthen,
		// clear or keep its expiry while the timer's callback is (parked) in the middle of its sweep
		prog.NoLin, prog.NoFeedOracle = true, true
		due := uint32(2 + r.Intn(3))
		prog.Setup = append(prog.Setup, Op{Kind: "Set", Key: g.keys[0], Body: strp(`{"v":1}`), ExpKind: 2, ExpVal: due})
		for t := 0; t < 1+r.Intn(2); t++ {
			ops := []Op{{Kind: "Sleep", Dur: int(due) - 1 + r.Intn(3)}}
			var op Op
			switch r.Intn(6) {
			case 0:
				op = Op{Kind: "Touch", ExpKind: 2, ExpVal: 500}
			case 1:
				op = Op{Kind: "Touch", ExpKind: 0}
			case 2:
				op = Op{Kind: "Set", Body: strp(fmt.Sprintf(`{"v":%d}`, g.uniq())), ExpKind: 2, ExpVal: 500}
			case 3:
				op = Op{Kind: "Set", Body: strp(fmt.Sprintf(`{"v":%d}`, g.uniq()))}
			case 4:
				op = Op{Kind: "GetAndTouchRaw", ExpKind: 2, ExpVal: 300}
			default:
				op = Op{Kind: "UpdateXattrs", Xattrs: map[string]string{"_sync": `{"r":1}`}, CasMode: "cur", ExpKind: 2, ExpVal: 400}
			}
			op.Key, op.Handle = g.keys[0], r.Intn(prog.NHandles)
			ops = append(ops, op, Op{Kind: "GetRaw", Key: g.keys[0]})
			prog.Tasks = append(prog.Tasks, ops)
		}
	case "view-race":
		// two collections hold the same keys with disjoint values; a view of collection 0 is queried
		// while design documents of either collection are deleted and (re-)created and documents change
		prog.NoLin, prog.NoFeedOracle = true, true
		for c := 0; c < 2; c++ {
			for i, k := range g.keys {
				prog.Setup = append(prog.Setup, Op{Kind: "Set", Coll: c, Key: k, Body: strp(fmt.Sprintf(`{"v":%d}`, 1000*(c+1)+i))})
			}
		}
		f1 := map[string]string{"v1": "F1"}
		prog.Setup = append(prog.Setup, Op{Kind: "PutDDoc", Coll: 0, Key: "dd1", Xattrs: f1}, Op{Kind: "View", Coll: 0, Key: "dd1", Path: "v1", Body: strp(`{"stale":false}`)})
		if r.Chance(40) {
			prog.Setup = append(prog.Setup, Op{Kind: "PutDDoc", Coll: 1, Key: "dd0", Xattrs: f1}, Op{Kind: "View", Coll: 1, Key: "dd0", Path: "v1", Body: strp(`{"stale":false}`)})
		}
		query := func(c int, dd string) Op {
			return Op{Kind: "View", Coll: c, Key: dd, Path: "v1", Handle: r.Intn(prog.NHandles), Body: strp([]string{`{"stale":false}`, `{"stale":false}`, `{"stale":"ok"}`}[r.Intn(3)])}
		}
		for t := 0; t < 1+r.Intn(2); t++ {
			var ops []Op
			for i := 0; i < 1+r.Intn(3); i++ {
				ops = append(ops, query(0, "dd1"))
			}
			prog.Tasks = append(prog.Tasks, ops)
		}
		var ch []Op
		switch r.Intn(3) {
		case 0: // the queried view disappears, another collection gets a new one
			ch = append(ch, Op{Kind: "DelDDoc", Coll: 0, Key: "dd1", Handle: r.Intn(prog.NHandles)},
				Op{Kind: "PutDDoc", Coll: 1, Key: "dd1", Xattrs: f1, Handle: r.Intn(prog.NHandles)}, query(1, "dd1"))
		case 1: // the queried design document is replaced by an identical one
			ch = append(ch, Op{Kind: "PutDDoc", Coll: 0, Key: "dd1", Xattrs: map[string]string{"v1": "F1", "v2": "F0"}, Handle: r.Intn(prog.NHandles)},
				Op{Kind: "PutDDoc", Coll: 1, Key: "dd2", Xattrs: f1, Handle: r.Intn(prog.NHandles)}, query(1, "dd2"))
		default: // only the other collection changes
			ch = append(ch, Op{Kind: "PutDDoc", Coll: 1, Key: "dd1", Xattrs: f1, Handle: r.Intn(prog.NHandles)}, query(1, "dd1"),
				Op{Kind: "DelDDoc", Coll: 1, Key: "dd1", Handle: r.Intn(prog.NHandles)})
		}
		prog.Tasks = append(prog.Tasks, ch)
		if r.Chance(60) {
			var wr []Op
			for i := 0; i < 1+r.Intn(3); i++ {
				c := r.Intn(2)
				wr = append(wr, Op{Kind: "Set", Coll: c, Key: g.keys[r.Intn(len(g.keys))], Handle: r.Intn(prog.NHandles), Body: strp(fmt.Sprintf(`{"v":%d}`, 1000*(c+1)+100+g.uniq()))})
			}
			prog.Tasks = append(prog.Tasks, wr)
		}
	case "rev-race":
		g.setupDocs(prog, 80)
		w := weights{"Touch": 10, "GetAndTouchRaw": 4, "Set": 6, "SetXattrs": 4, "Incr": 2, "Delete": 2, "Add": 2, "UpdateXattrs": 2, "WriteCas": 3, "DeleteSubDocPaths": 1, "GetWithXattrs": 2}
		for t := 0; t < nt; t++ {
			var ops []Op
			for i := 0; i < 2+r.Intn(4); i++ {
				ops = append(ops, g.e2op(g.weighted(w), prog.NHandles))
			}
			prog.Tasks = append(prog.Tasks, ops)
		}
	case "insert-race":
		// the key has no body (never written, or deleted with or without xattrs); every client tries to
		// create it through an insert-style entry point: at most one may succeed
		switch r.Intn(3) {
		case 1:
			prog.Setup = append(prog.Setup, Op{Kind: "Set", Key: g.keys[0], Body: strp(g.jsonBody())}, Op{Kind: "Delete", Key: g.keys[0]})
		case 2:
			prog.Setup = append(prog.Setup, Op{Kind: "Set", Key: g.keys[0], Body: strp(g.jsonBody())}, Op{Kind: "SetXattrs", Key: g.keys[0], Xattrs: map[string]string{"_sync": `{"r":1}`}}, Op{Kind: "Delete", Key: g.keys[0]})
		}
		for t := 0; t < nt; t++ {
			var op Op
			switch r.Intn(6) {
			case 0:
				op = Op{Kind: "Add", Body: strp(g.jsonBody())}
			case 1:
				op = Op{Kind: "AddRaw", Body: strp(g.rawBody())}
			case 2:
				op = Op{Kind: "WriteCas", Body: strp(g.jsonBody()), WOpt: int(sgbucket.AddOnly), CasMode: "zero"}
			case 3:
				op = Op{Kind: "WriteCas", Body: strp(g.jsonBody()), CasMode: "zero"}
			case 4:
				op = Op{Kind: "WriteResurrectionWithXattrs", Body: strp(g.jsonBody()), Xattrs: g.xattrSet(0, 1)}
			default:
				op = Op{Kind: "WriteWithXattrs", Body: strp(g.jsonBody()), Xattrs: g.xattrSet(1, 1), CasMode: "zero", XDelNil: true}
			}
			op.Key, op.Handle = g.keys[0], r.Intn(prog.NHandles)
			prog.Tasks = append(prog.Tasks, []Op{op})
		}
	case "openclose":
		prog.NoLin, prog.NoFeedOracle = true, true
		for t := 0; t < 2+r.Intn(3); t++ {
			var ops []Op
			ops = append(ops, Op{Kind: "OpenHandle", CasMode: []string{"any", "reopen"}[r.Intn(2)]})
			for i := 0; i < r.Intn(3); i++ {
				ops = append(ops, Op{Kind: "Set", Handle: -1, Key: fmt.Sprintf("t%dk%d", t, i), Body: strp(fmt.Sprintf(`{"v":%d}`, g.uniq()))})
			}
			ops = append(ops, Op{Kind: "Close", Handle: -1})
			prog.Tasks = append(prog.Tasks, ops)
		}
		if r.Chance(70) { // somebody closes the handle that created the bucket
			prog.Tasks = append(prog.Tasks, []Op{{Kind: "Close", Handle: 0}})
		}
	case "shutdown":
		g.p.ShortExp = true
		g.p.ExpPct = 60
		g.setupDocs(prog, 50)
		// documents with near deadlines so that the expiry timer is armed (and fires while clients sleep)
		if r.Chance(70) { // (otherwise the expiry timer has never been armed when the shutdown begins)
			for i, k := range g.keys {
				prog.Setup = append(prog.Setup, Op{Kind: "Set", Key: k, Coll: 0, Body: strp(fmt.Sprintf(`{"e":%d}`, i)), ExpKind: 2, ExpVal: uint32(1 + r.Intn(4))})
			}
		}
		if r.Chance(60) {
			fs := FeedSpec{ID: "f0", Handle: r.Intn(prog.NHandles), Coll: 0}
			if r.Chance(50) {
				fs.Backfill, fs.Ckpt = "resume", "cp" // a checkpointing feed writes its checkpoint when it is stopped
			}
			prog.Feeds = append(prog.Feeds, fs)
		}
		if prog.NColl > 1 && r.Chance(25) {
			// a bucket-level feed whose owner passes no done channel: it must go away with the store all the same
			prog.Feeds = append(prog.Feeds, FeedSpec{ID: "nd", Handle: r.Intn(prog.NHandles), Bucket: true, NoDone: true})
		}
		w := weights{"Set": 6, "Add": 2, "Delete": 3, "Incr": 2, "WriteCas": 2, "GetRaw": 3, "Touch": 3, "Update": 2, "SetXattrs": 1, "WriteSubDoc": 1}
		if r.Chance(40) {
			// design documents are put, queried and deleted while the store is being shut down
			prog.Setup = append(prog.Setup, Op{Kind: "PutDDoc", Coll: 0, Key: "dd1", Xattrs: map[string]string{"v1": "F1", "v2": "F0"}})
			w = w.with("PutDDoc", 4, "DelDDoc", 2, "View", 4)
		}
		sleepFirst := r.Chance(60)
		for t := 0; t < 1+r.Intn(2); t++ {
			var ops []Op
			if sleepFirst && r.Chance(70) {
				ops = append(ops, Op{Kind: "Sleep", Dur: 1 + r.Intn(5)})
			}
			for i := 0; i < 1+r.Intn(4); i++ {
				ops = append(ops, g.e2op(g.weighted(w), prog.NHandles))
			}
			prog.Tasks = append(prog.Tasks, ops)
		}
		if r.Chance(40) {
			fs := FeedSpec{ID: "late", Handle: r.Intn(prog.NHandles), Coll: 0, Backfill: []string{"", "zero"}[r.Intn(2)]}
			prog.Tasks = append(prog.Tasks, []Op{{Kind: "StartFeed", Feed: &fs}})
		}
		for c := 0; c < 1+r.Intn(2); c++ {
			var ops []Op
			if sleepFirst {
				ops = append(ops, Op{Kind: "Sleep", Dur: 1 + r.Intn(5)})
			}
			switch t := r.Intn(10); {
			case t < 4:
				ops = append(ops, Op{Kind: "CloseAndDelete", Handle: r.Intn(prog.NHandles)})
			case t < 8:
				ops = append(ops, Op{Kind: "Close", Handle: c % prog.NHandles})
			default:
				if prog.NColl > 1 {
					ops = append(ops, Op{Kind: "DropColl", Coll: 1, Handle: r.Intn(prog.NHandles)})
				} else {
					ops = append(ops, Op{Kind: "Close", Handle: c % prog.NHandles})
				}
			}
			prog.Tasks = append(prog.Tasks, ops)
		}
		prog.NoLin = true
		prog.NoFeedOracle = true
	}
	return prog
}
