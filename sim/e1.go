package sim

import (
	"context"
	"encoding/json"
	"fmt"
	"runtime"
	"sort"
	"strings"
	"testing"
	"testing/synctest"
	"time"

	sgbucket "github.com/couchbase/sg-bucket"
	"github.com/couchbaselabs/rosmar"

	"verifsim/vfs"
)

func runtimeStack(buf []byte) int { return runtime.Stack(buf, false) }

// ---------------------------------------------------------------------------------------
// E1: sequential refinement. One client (the bubble's root) issues a generated operation
// sequence; after every step the world is quiescent (synctest.Wait), the model is stepped,
// the live feeds are compared with the expected event and the key is read back through
// every observer.
// ---------------------------------------------------------------------------------------

type Violation struct {
	Tags   []string `json:"tags"`
	Oracle string   `json:"oracle"`
	Msg    string   `json:"msg"`
	Step   int      `json:"step"`
	Detail string   `json:"detail,omitempty"` // informative only (may contain text that is not replay-stable)
	// Continue: the engine has worked around what it reports here and the run goes on (used for the
	// one recorded finding that would otherwise end every run that meets it)
	Continue bool `json:"-"`
}

func (v *Violation) Has(prop string) bool {
	for _, t := range v.Tags {
		if t == prop {
			return true
		}
	}
	return false
}

type Program struct {
	Prop       string `json:"prop,omitempty"` // the property this program was generated for (its own oracles stop the run; others resync and go on)
	Engine     string `json:"engine"`
	Seed       uint64 `json:"seed"`
	OnDisk     bool   `json:"ondisk,omitempty"`
	NColl      int    `json:"ncoll"`
	MaxDoc     int    `json:"maxdoc,omitempty"`
	Ops        []Op   `json:"ops"`
	ReadAll    bool   `json:"readall,omitempty"`    // after each step read back every key of every collection (C11)
	TwoBuckets bool   `json:"twobuckets,omitempty"` // a second bucket with the same keys (C11)
	// E2 (concurrent) programs:
	Setup        []Op       `json:"setup,omitempty"`
	Tasks        [][]Op     `json:"tasks,omitempty"`
	NHandles     int        `json:"nhandles,omitempty"`
	Feeds        []FeedSpec `json:"feeds,omitempty"`
	Strategy     string     `json:"strategy,omitempty"`
	StratArg     int        `json:"stratarg,omitempty"`
	SchedSeed    uint64     `json:"schedseed,omitempty"`
	Tape         []int      `json:"tape,omitempty"`
	Scenario     string     `json:"scenario,omitempty"`
	NoLin        bool       `json:"nolin,omitempty"`
	NoFeedOracle bool       `json:"nofeedoracle,omitempty"`
	// E3 (crash) programs: -1 = enumerate every I/O boundary, otherwise the one crash point to run
	CrashAt int `json:"crashat,omitempty"`
	// disk faults injected through the VFS shim into on-disk sequential runs
	Faults  []FaultSpec `json:"faults,omitempty"`
	Backlog int         `json:"backlog,omitempty"` // E4: number of events that pile up behind a stalled consumer
	Overdue int         `json:"overdue,omitempty"` // E4: number of documents written one after the other with an expiry time that has already passed
	Torn    bool        `json:"torn,omitempty"`
}

// FaultSpec plants one disk fault: before operation AtOp starts, a one-shot fault of the given
// kind is armed Offset mutating I/O calls (or, for busy, lock calls) ahead.
type FaultSpec struct {
	AtOp   int `json:"atop"`
	Kind   int `json:"kind"`
	Offset int `json:"offset"`
}

type RunStats struct {
	Ops         int            `json:"ops"`
	Cells       map[string]int `json:"cells,omitempty"` // prior state × op × outcome
	Probes      map[string]int `json:"probes,omitempty"`
	NonTrivial  bool           `json:"nontrivial"`
	SimSeconds  float64        `json:"sim_seconds"`
	Shape       string         `json:"shape,omitempty"`
	CrashPoints int            `json:"crash_points,omitempty"`
	Faults      map[string]int `json:"faults,omitempty"`
}

type RunResult struct {
	Violation *Violation   `json:"violation,omitempty"`
	All       []*Violation `json:"all,omitempty"` // every oracle that fired (concurrent runs); Violation is the first
	Stats     RunStats     `json:"stats"`
	Trouble   string       `json:"trouble,omitempty"` // machinery problem (not a violation)
	Log       []string     `json:"log,omitempty"`
	CrashAt   int          `json:"crash_at,omitempty"`
	Torn      bool         `json:"torn,omitempty"`
}

type e1 struct {
	p                *Program
	crossCas         bool // the current with-meta write carries the CAS of the same key in another collection
	stmtFiredBefore  int64
	prevTomb         bool // the step being judged started from a tombstone
	w                *World
	w2               *World // optional second bucket
	env              Env
	docs             []map[string]Doc // per collection
	docs2            map[string]Doc   // second bucket, default collection
	names            map[string]bool  // xattr names ever used
	live             []*FeedLog       // one live feed per collection
	liveIdx          []int
	live2            *FeedLog
	live2Idx         int
	maxCas           uint64 // highest CAS seen on any document (including caller-supplied WithMeta values)
	maxIssued        uint64 // highest CAS handed out by the clock (regular writes)
	clockBack        uint64 // how far the HLC's physical clock has been set back (nanoseconds)
	maxBucketCas     uint64 // highest CAS of a committed transaction of the (on-disk) bucket: what a restart may rely on
	sched            *Sched
	commitBusyBefore int
	liveByCas        map[string]ObsEvent                   // "coll/key/cas" -> the live event seen for that mutation
	ddocs            map[int]map[string]map[string]viewDef // collection -> design doc -> view -> definition
	casHist          map[string][]uint64                   // per coll/key: CAS values seen (for "stale")
	ctx              OpCtx
	res              *RunResult
	step             int
	feedN            int
	logOn            bool
}

func (e *e1) logf(format string, args ...any) {
	if e.logOn {
		e.res.Log = append(e.res.Log, fmt.Sprintf(format, args...))
	}
}

func (e *e1) probe(name string) {
	if e.res.Stats.Probes == nil {
		e.res.Stats.Probes = map[string]int{}
	}
	e.res.Stats.Probes[name]++
}

func (e *e1) violate(tags []string, oracle, format string, args ...any) *Violation {
	v := &Violation{Tags: uniq(tags), Oracle: oracle, Msg: fmt.Sprintf(format, args...), Step: e.step}
	return v
}

func uniq(in []string) []string {
	seen := map[string]bool{}
	var out []string
	for _, s := range in {
		if !seen[s] {
			seen[s] = true
			out = append(out, s)
		}
	}
	sort.Strings(out)
	return out
}

var xattrFamilyKinds = map[string]bool{
	"SetXattrs": true, "UpdateXattrs": true, "RemoveXattrs": true, "DeleteSubDocPaths": true, "WriteWithXattrs": true,
	"WriteTombstoneWithXattrs": true, "WriteResurrectionWithXattrs": true, "WriteUpdateWithXattrs": true, "DeleteWithXattrs": true,
}

// retag narrows the tags of a read-back mismatch to the properties the mutating entry
// point is in scope of.
func retag(tags []string, op *Op, family string, what string) []string {
	var out []string
	inX := xattrFamilyKinds[op.Kind]
	for _, t := range tags {
		switch t {
		case "C05":
			if family == "delete" || family == "resurrect" {
				out = append(out, t)
			}
		case "C07":
			if inX || family == "body" {
				out = append(out, t)
			}
		default:
			out = append(out, t)
		}
	}
	if inX && (what == "body" || what == "exp") {
		out = append(out, "C07")
	}
	if family == "subdoc" || op.Kind == "WriteSubDoc" || op.Kind == "SubdocInsert" {
		out = append(out, "C18")
	}
	if family == "touch" || what == "exp" {
		out = append(out, "C14")
	}
	if family == "meta" {
		out = append(out, "C02")
	}
	return uniq(out)
}

func (e *e1) key(coll int, key string) string { return fmt.Sprintf("%d/%s", coll, key) }

func (e *e1) resolveCas(op *Op, d Doc) {
	e.crossCas = false
	if op.ExpKind == 3 {
		if d.HasBody && d.Exp != 0 && !d.ExpAny {
			op.ExpArg = d.Exp
		} else {
			op.ExpKind = 0
		}
	}
	hist := e.casHist[e.key(op.Coll, op.Key)]
	switch op.CasMode {
	case "", "zero":
		op.CasArg = 0
	case "cur":
		op.CasArg = d.Cas
		if !d.Exists {
			op.CasArg = 0
		}
	case "stale":
		op.CasArg = 777
		for i := len(hist) - 1; i >= 0; i-- {
			if hist[i] != d.Cas || !d.Exists {
				op.CasArg = hist[i]
				break
			}
		}
	case "bogus":
		op.CasArg = e.maxCas + 123456789
	}
	if op.Kind == "SetWithMeta" || op.Kind == "DeleteWithMeta" {
		op.NewCas = e.maxCas + 1 + uint64(op.Amt)
		if op.Amt%11 == 8 {
			// well ahead of the local clock (a mutation replicated from a cluster whose clock runs ahead):
			// the ordinary writes that follow carry lower CAS values than this document
			op.NewCas = e.maxCas + 5_000_000_000 + uint64(op.Amt)
			e.probe("withmeta.cas-ahead-of-clock")
		} else if op.Amt%11 == 5 && d.Exists && d.Cas != 0 {
			// the caller-chosen CAS is exactly the one the document already carries (a replayed mutation)
			op.NewCas = d.Cas
			e.probe("withmeta.same-cas-as-stored")
		} else if op.Amt%11 == 6 && op.Handle != 9 {
			// ... or exactly the one the same key carries in ANOTHER collection (one source document
			// replicated into two collections)
			for oc, odocs := range e.docs {
				if od, ok := odocs[op.Key]; ok && oc != op.Coll && od.Cas != 0 {
					op.NewCas = od.Cas
					e.crossCas = true
					e.probe("withmeta.same-cas-other-collection")
					break
				}
			}
		}
		if op.Amt%11 == 7 && op.Handle != 9 && e.p.Prop == "C02" {
			// ... or exactly the CAS ANOTHER key of the same collection carries right now (only in the
			// runs of C02, which start no backfill: two documents with one CAS have no defined order there)
			for _, ok := range keysOf(e.docs[op.Coll], "") {
				if od := e.docs[op.Coll][ok]; ok != op.Key && od.Exists && od.Cas != 0 {
					op.NewCas = od.Cas
					e.probe("withmeta.same-cas-as-other-key")
					break
				}
			}
		}
		if op.Amt%5 == 4 && op.Handle != 9 {
			// the caller-chosen CAS is one that ANOTHER key of the collection carried earlier (as a
			// replicated mutation may): conditional writes holding that stale CAS must still fail
			current := map[uint64]bool{}
			for _, od := range e.docs[op.Coll] {
				current[od.Cas] = true
			}
			var ks []string
			for k := range e.casHist {
				ks = append(ks, k)
			}
			sort.Strings(ks)
			prefix := fmt.Sprintf("%d/", op.Coll)
		pick:
			for _, k := range ks {
				if !strings.HasPrefix(k, prefix) || k == e.key(op.Coll, op.Key) {
					continue
				}
				hk := e.casHist[k]
				for i := len(hk) - 1; i >= 0; i-- { // the newest one: what a "stale" CAS argument for that key resolves to
					if c := hk[i]; c != 0 && !current[c] {
						op.NewCas = c
						e.probe("withmeta.reuses-stale-cas")
						break pick
					}
				}
			}
		}
	}
}

// RunE1 executes the program in a fresh bubble and returns the verdict.
func RunE1(t *testing.T, p *Program, withLog bool) *RunResult {
	res := &RunResult{}
	e := &e1{p: p, res: res, names: map[string]bool{}, casHist: map[string][]uint64{}, logOn: withLog}
	res.Stats.Cells = map[string]int{}
	bo := RunBubble(t, func() { e.run() })
	if e.w != nil {
		e.w.Cleanup()
	}
	if e.w2 != nil {
		e.w2.Cleanup()
	}
	Uninstall()
	rosmar.VerifSetClock(nil)
	rosmar.MaxDocSize = 20 * 1024 * 1024
	if bo.Panic != "" && res.Trouble == "" && res.Violation == nil {
		res.Trouble = "root panic: " + bo.Panic
	}
	if bo.Leaked && res.Violation == nil && res.Trouble == "" {
		res.Trouble = "goroutines leaked at the end of a sequential run"
	}
	return res
}

func (e *e1) run() {
	p := e.p
	start := time.Now()
	rosmar.VerifResetProcess()
	rosmar.VerifSetClock(nil)
	vfs.Reset()
	rosmar.MaxDocSize = 20 * 1024 * 1024
	if p.MaxDoc > 0 {
		rosmar.MaxDocSize = p.MaxDoc
	}
	e.env = Env{MaxDoc: p.MaxDoc}
	s := NewSched(NewTape(p.Seed))
	s.notes = func(name, detail string, n uint64, t *Task, gid uint64) {
		if gid == s.rootGID {
			e.ctx.note(name, n)
		}
	}
	s.Install()
	defer Uninstall()
	e.sched = s
	e.liveByCas = map[string]ObsEvent{}

	w, err := OpenWorld("b1", p.OnDisk, ifelseI(p.Prop == "C12", 2, 1), p.NColl)
	e.w = w
	if err != nil {
		e.res.Trouble = "setup: " + err.Error()
		return
	}
	e.docs = make([]map[string]Doc, p.NColl)
	e.liveIdx = make([]int, p.NColl)
	for i := range e.docs {
		e.docs[i] = map[string]Doc{}
		f, err := w.StartFeed(0, i, fmt.Sprintf("live%d", i), sgbucket.FeedNoBackfill, false, false, "", nil)
		if err != nil {
			e.res.Trouble = "setup feed: " + err.Error()
			return
		}
		e.live = append(e.live, f)
	}
	if p.TwoBuckets {
		w2, err := OpenWorld("b2", false, 1, 1)
		e.w2 = w2
		if err != nil {
			e.res.Trouble = "setup2: " + err.Error()
			return
		}
		e.docs2 = map[string]Doc{}
		e.live2, err = w2.StartFeed(0, 0, "live-b2", sgbucket.FeedNoBackfill, false, false, "", nil)
		if err != nil {
			e.res.Trouble = "setup feed2: " + err.Error()
			return
		}
	}
	synctest.Wait()

	for i := range p.Ops {
		e.step = i
		op := &p.Ops[i]
		v := e.doOp(op)
		vfs.ClearFaults() // a planned fault that this step did not reach is dropped, it never leaks into the next step
		if v != nil && v.Continue {
			e.res.All = append(e.res.All, v)
			v = nil
		}
		if v != nil {
			e.res.All = append(e.res.All, v)
			if p.Prop == "" || v.Has(p.Prop) || len(e.res.All) > 6 {
				e.res.Violation = e.res.All[0]
				break
			}
			// An oracle of ANOTHER property fired. Its check reports it; this run re-learns the
			// documents from what rosmar now says and goes on, so that one defect does not
			// hide what this property's own oracles would see later in the history.
			e.resyncAll()
			e.probe("foreign-violation-resynced")
		}
		if e.res.Trouble != "" {
			break
		}
		time.Sleep(time.Millisecond)
	}
	if e.res.Violation == nil && len(e.res.All) > 0 {
		e.res.Violation = e.res.All[0]
	}
	e.res.Stats.Ops = len(p.Ops)
	e.res.Stats.SimSeconds = time.Since(start).Seconds()

	// teardown
	for _, f := range e.live {
		f.Stop()
	}
	if e.live2 != nil {
		e.live2.Stop()
	}
	synctest.Wait()
	for _, h := range w.Handles {
		_ = h.CloseAndDelete(context.Background())
	}
	if e.w2 != nil {
		for _, h := range e.w2.Handles {
			_ = h.CloseAndDelete(context.Background())
		}
	}
	synctest.Wait()
}

func (e *e1) target(op *Op) (sgbucket.DataStore, *rosmar.Bucket, map[string]Doc) {
	if op.Handle == 9 { // second bucket
		return e.w2.Colls[0][0], e.w2.Handles[0], e.docs2
	}
	return e.w.Colls[0][op.Coll], e.w.Handles[0], e.docs[op.Coll]
}

func (e *e1) doOp(op *Op) *Violation {
	switch op.Kind {
	case "Backfill":
		return e.doBackfill(op)
	case "Purge":
		return e.doPurge(op)
	case "Reopen", "Restart":
		return e.doReopen(op)
	case "Advance":
		return e.doAdvance(op)
	case "Clock":
		return e.doClock(op)
	case "PutDDoc", "DelDDoc":
		return e.doPutDDoc(op)
	case "View":
		return e.doView(op)
	case "Query":
		return e.doQuery(op)
	case "RecreateColl":
		return e.doRecreateColl(op)
	case "EnsureColl":
		return e.doEnsureColl(op)
	case "CreateIndex":
		return e.doCreateIndex(op)
	case "HLCBurst":
		return e.doHLCBurst(op)
	}
	ds, bucket, docs := e.target(op)
	d := docs[op.Key]
	e.resolveCas(op, d)
	for _, name := range op.XEcho {
		// hand the xattr back exactly as it is stored (what a read-modify-write caller does)
		if v, ok := d.X[name]; ok {
			if op.Xattrs == nil {
				op.Xattrs = map[string]string{}
			}
			op.Xattrs[name] = v
		}
	}
	for k := range op.Xattrs {
		e.names[k] = true
	}
	for _, k := range op.XDel {
		e.names[k] = true
	}
	for _, a := range op.Cb {
		for k := range a.Xattrs {
			e.names[k] = true
		}
	}
	firedBefore := e.armFaults()
	r := Exec(ds, bucket, op, nowUnix(), &e.ctx)
	vfs.ClearFaults()
	synctest.Wait()
	if kind := e.faultFired(firedBefore); kind != "" && ioFailure(&r) {
		// An injected disk fault made this call fail. The relaxation is exactly this: the call may
		// return an error; then the document, the feeds and everything else must be unchanged.
		e.logf("#%d %s -> failed under injected %s   [%s unchanged]", e.step, op, kind, d.State())
		e.probe("fault.op-failed:" + kind)
		vLive := e.checkLive(op, StepOut{OK: true, Next: d})
		if vLive != nil {
			vLive.Tags = append(vLive.Tags, "C01")
		}
		return e.pick(vLive, e.readBack(op, "body", true))
	}
	out := Step(d, op, &r, e.env)
	cell := fmt.Sprintf("%s|%s|%s", d.State(), op.Kind, orOK(r.Err))
	e.res.Stats.Cells[cell]++
	if d.Exists {
		e.res.Stats.NonTrivial = true
	}
	e.logf("#%d %s -> %s   [%s -> %s]", e.step, op, resForLog(op, r), d.State(), ifelseS(out.OK, out.Next.State(), "VIOLATION"))
	if !out.OK {
		if e.crossCas && r.Err != "" {
			// the call carried the CAS the same key has in another collection, and was refused: what another
			// collection holds must not matter
			out.Tags = uniq(append(out.Tags, "C11"))
		}
		v := e.violate(out.Tags, "outcome:"+op.Kind, "step %d %s on %s: %s", e.step, op, d, out.Why)
		v.Detail = r.ErrText
		e.skipLive()
		return v
	}
	if r.Commits > 0 && r.NewCas > e.maxBucketCas && op.Handle != 9 {
		e.maxBucketCas = r.NewCas
	}
	if out.Mutated && out.Family == "touch" {
		// a touch changes expiry and revision but (in rosmar) not the CAS: the live event recorded for
		// that CAS no longer describes the current state
		delete(e.liveByCas, fmt.Sprintf("%d/%s/%d", op.Coll, op.Key, d.Cas))
	}
	if out.Mutated {
		n := out.Next
		if n.Cas != 0 && op.Kind != "SetWithMeta" && op.Kind != "DeleteWithMeta" && out.Family != "touch" {
			if n.Cas <= e.maxIssued {
				return e.violate([]string{"C04"}, "cas.monotonic", "step %d %s: new CAS %d is not above the highest CAS handed out so far (%d)", e.step, op, n.Cas, e.maxIssued)
			}
			e.maxIssued = n.Cas
		}
		if n.Cas > e.maxCas {
			e.maxCas = n.Cas
		}
		k := e.key(op.Coll, op.Key)
		if op.Handle == 9 {
			k = "b2/" + op.Key
		}
		e.casHist[k] = append(e.casHist[k], n.Cas)
		if !n.Exists {
			delete(docs, op.Key)
		} else {
			docs[op.Key] = n
		}
	} else if r.Err == "" && r.Commits > 0 && out.Family != "read" {
		// a call that changed nothing may still have consumed a CAS
		if r.NewCas > e.maxCas {
			e.maxCas = r.NewCas
		}
		if r.NewCas > e.maxIssued {
			e.maxIssued = r.NewCas
		}
	}
	// live feed events, then read-back through every observer: both oracles run, and the one that
	// belongs to the property under check is the one reported
	e.prevTomb = d.Exists && !d.HasBody
	vLive := e.checkLive(op, out)
	e.prevTomb = false
	vRead := e.readBack(op, out.Family, r.Err != "")
	return e.pick(vLive, vRead)
}

// pick returns the violation that belongs to the property this program was generated for, else
// the first one.
func (e *e1) pick(vs ...*Violation) *Violation {
	var first *Violation
	for _, v := range vs {
		if v == nil {
			continue
		}
		if first == nil {
			first = v
		}
		if e.p.Prop != "" && v.Has(e.p.Prop) {
			return v
		}
	}
	for _, v := range vs {
		if v != nil && v != first {
			e.res.All = append(e.res.All, v)
		}
	}
	return first
}

// skipLive forgets the events delivered so far (after a step whose outcome the model rejected).
func (e *e1) skipLive() {
	for ci, f := range e.live {
		e.liveIdx[ci] = len(f.Snapshot())
	}
	if e.live2 != nil {
		e.live2Idx = len(e.live2.Snapshot())
	}
}

// resyncAll re-learns every document from rosmar's own answers.
func (e *e1) resyncAll() {
	e.skipLive()
	names := append(e.allNames(), "$document")
	learn := func(ds sgbucket.DataStore, docs map[string]Doc, key string) {
		body, xv, cas, err := ds.GetWithXattrs(context.Background(), key, names)
		if err != nil {
			delete(docs, key)
			return
		}
		d := Doc{Exists: true, HasBody: body != nil, Body: string(body), JSON: -1, Cas: cas, X: map[string]string{}}
		for k, v := range xv {
			if k == "$document" {
				var vd struct {
					Rev string `json:"revid"`
				}
				_ = json.Unmarshal(v, &vd)
				fmt.Sscanf(vd.Rev, "%d", &d.Rev)
				continue
			}
			d.X[k] = string(v)
		}
		if exp, err := ds.GetExpiry(context.Background(), key); err == nil {
			d.Exp = exp
		}
		if old, ok := docs[key]; ok && old.Cas == cas {
			d.JSON, d.Meta = old.JSON, old.Meta
		}
		docs[key] = d
		if cas > e.maxCas {
			e.maxCas = cas
		}
	}
	for ci := range e.docs {
		for _, k := range e.allKeys() {
			learn(e.w.Colls[0][ci], e.docs[ci], k)
		}
	}
	if e.w2 != nil {
		for _, k := range e.allKeys() {
			learn(e.w2.Colls[0][0], e.docs2, k)
		}
	}
}

// checkLive compares what the live feeds received since the previous step with the one
// event the model expects (or none).
func (e *e1) checkLive(op *Op, out StepOut) *Violation {
	for ci, f := range e.live {
		evs := f.Snapshot()
		fresh := evs[e.liveIdx[ci]:]
		e.liveIdx[ci] = len(evs)
		mine := ci == op.Coll && op.Handle != 9
		if v := e.checkFresh(op, out, fresh, mine, fmt.Sprintf("collection %d", ci)); v != nil {
			return v
		}
	}
	if e.live2 != nil {
		evs := e.live2.Snapshot()
		fresh := evs[e.live2Idx:]
		e.live2Idx = len(evs)
		if v := e.checkFresh(op, out, fresh, op.Handle == 9, "second bucket"); v != nil {
			return v
		}
	}
	return nil
}

func (e *e1) checkFresh(op *Op, out StepOut, fresh []ObsEvent, mine bool, where string) *Violation {
	if !mine {
		if len(fresh) > 0 {
			return e.violate([]string{"C11"}, "feed.isolation", "step %d %s: the feed of %s received %s", e.step, op, where, fresh[0])
		}
		return nil
	}
	if out.Event == nil {
		if len(fresh) > 0 {
			tags := []string{"C08"}
			return e.violate(tags, "event.spurious", "step %d %s (no mutation with a new CAS) delivered %s", e.step, op, fresh[0])
		}
		return nil
	}
	if len(fresh) == 0 {
		return e.violate([]string{"C08"}, "event.missing", "step %d %s: no event delivered, expected %v", e.step, op, *out.Event)
	}
	if len(fresh) > 1 {
		return e.violate([]string{"C08"}, "event.duplicate", "step %d %s: %d events delivered: %s, %s", e.step, op, len(fresh), fresh[0], fresh[1])
	}
	e.liveByCas[fmt.Sprintf("%d/%s/%d", op.Coll, fresh[0].Key, fresh[0].Cas)] = fresh[0]
	if what, tags := compareEvent(fresh[0], out.Event, "C08"); what != "" {
		if e.prevTomb && out.Event.HasBody && (strings.HasPrefix(what, "xattrs") || strings.HasPrefix(what, "datatype")) {
			// a write that gave a tombstone a body: the live-feed observer must see none of its xattrs
			tags = append(tags, "C05")
		}
		return e.violate(tags, "event."+strings.SplitN(what, " ", 2)[0], "step %d %s: live event %s differs from the mutation: %s", e.step, op, fresh[0], what)
	}
	return nil
}

// compareEvent returns a description of the first difference ("" if none) and its tags.
func compareEvent(o ObsEvent, x *ExpEvent, base string) (string, []string) {
	if o.DecodeErr != "" {
		return "decode value: " + o.DecodeErr, []string{base}
	}
	if o.Key != x.Key {
		return fmt.Sprintf("key %q, expected %q", o.Key, x.Key), []string{base}
	}
	wantOp := sgbucket.FeedOpMutation
	if x.Deletion {
		wantOp = sgbucket.FeedOpDeletion
	}
	if o.Opcode != wantOp {
		return fmt.Sprintf("opcode %s, expected %s (document has body: %v)", o.Opcode, wantOp, x.HasBody), []string{base, "C05"}
	}
	if x.HasBody && x.Body == "" && !o.HasBody && len(x.X) > 0 {
		// a zero-length body inside the xattr framing of an event cannot be told from no body
	} else if o.HasBody != x.HasBody || o.Body != x.Body {
		return fmt.Sprintf("body %q(has=%v), expected %q(has=%v)", o.Body, o.HasBody, x.Body, x.HasBody), []string{base}
	}
	for k, v := range x.X {
		got, ok := o.X[k]
		if !ok || !jsonEqual(got, v) {
			return fmt.Sprintf("xattrs %s=%s, expected %s", k, got, v), []string{base}
		}
	}
	for k := range o.X {
		if _, ok := x.X[k]; !ok {
			return fmt.Sprintf("xattrs carries unexpected %s", k), []string{base}
		}
	}
	if (o.DataType&sgbucket.FeedDataTypeXattr != 0) != (len(x.X) > 0) {
		return fmt.Sprintf("datatype %d xattr bit, expected xattrs=%v", o.DataType, len(x.X) > 0), []string{base}
	}
	if x.JSON >= 0 && x.HasBody && (o.DataType&sgbucket.FeedDataTypeJSON != 0) != (x.JSON == 1) {
		return fmt.Sprintf("datatype %d JSON bit, expected json=%v", o.DataType, x.JSON == 1), []string{base}
	}
	if x.Cas != 0 && o.Cas != x.Cas {
		return fmt.Sprintf("cas %d, expected %d", o.Cas, x.Cas), []string{base}
	}
	if o.Exp != x.Exp && !(x.Deletion && o.Exp == 0) {
		// (whether a tombstone keeps an expiry that an xattr write gave it is unspecified)
		return fmt.Sprintf("expiry %d, expected %d", o.Exp, x.Exp), []string{base, "C14"}
	}
	if o.Rev != x.Rev {
		return fmt.Sprintf("revno %d, expected %d", o.Rev, x.Rev), []string{base, "C17"}
	}
	return "", nil
}

func (e *e1) allNames() []string {
	ns := make([]string, 0, len(e.names)+2)
	for k := range e.names {
		if validXattrName(k) {
			ns = append(ns, k)
		}
	}
	sort.Strings(ns)
	return ns
}

// readKey reads one key through every observer and checks it against the model.
func (e *e1) readKey(ds sgbucket.DataStore, bucket *rosmar.Bucket, docs map[string]Doc, coll int, key string) (string, []string, string) {
	names := append(e.allNames(), "$document", "$document.revid")
	reads := []Op{
		{Kind: "GetRaw", Coll: coll, Key: key},
		{Kind: "Exists", Coll: coll, Key: key},
		{Kind: "GetExpiry", Coll: coll, Key: key},
		{Kind: "GetWithXattrs", Coll: coll, Key: key, XNames: names},
		{Kind: "GetXattrs", Coll: coll, Key: key, XNames: names},
	}
	if len(names) > 2 {
		reads = append(reads, Op{Kind: "GetWithXattrs", Coll: coll, Key: key, XNames: names[:len(names)-2]})
	}
	for i := range reads {
		rop := &reads[i]
		d := docs[key]
		r := Exec(ds, bucket, rop, nowUnix(), nil)
		// learn a CAS the API did not return
		if d.Exists && d.Cas == 0 && r.Err == "" && r.Cas != 0 && (rop.Kind == "GetRaw" || rop.Kind == "GetWithXattrs") {
			d.Cas = r.Cas
			docs[key] = d
		}
		out := Step(d, rop, &r, e.env)
		if !out.OK {
			what := "body"
			switch {
			case rop.Kind == "GetExpiry":
				what = "exp"
			case strings.Contains(out.Why, "xattr"):
				what = "xattr"
			case strings.Contains(out.Why, "CAS"):
				what = "cas"
			}
			return fmt.Sprintf("%s -> %s: %s (model: %s)", rop, r, out.Why, d), out.Tags, what
		}
		if out.Next.Exists {
			docs[key] = out.Next
		}
	}
	return "", nil, ""
}

func (e *e1) readBack(op *Op, family string, failed bool) *Violation {
	ds, bucket, docs := e.target(op)
	if why, tags, what := e.readKey(ds, bucket, docs, op.Coll, op.Key); why != "" {
		tags = retag(tags, op, family, what)
		if d := docs[op.Key]; family == "delete" && d.Exists && !d.HasBody {
			// a deletion must leave a tombstone that every observer sees as such (C05), and that keeps
			// "the key exists" true for the insert-style writes that ask (C06)
			tags = uniq(append(tags, "C05", "C06"))
		} else if d.Exists && !d.HasBody && !failed && what == "body" {
			// the call made (or left) a tombstone, and an observer still finds a body
			tags = uniq(append(tags, "C05"))
		}
		oracle := "readback." + what
		if failed {
			oracle = "readback.after-error." + what
			tags = append(tags, "C01")
		}
		return e.violate(tags, oracle, "step %d after %s: %s", e.step, op, why)
	}
	// isolation: the same key in every other collection / bucket, and (ReadAll) everything
	for ci := range e.docs {
		if ci == op.Coll && op.Handle != 9 {
			continue
		}
		keys := []string{op.Key}
		if e.p.ReadAll {
			keys = keysOf(e.docs[ci], op.Key)
		}
		for _, k := range keys {
			if why, _, what := e.readKey(e.w.Colls[0][ci], e.w.Handles[0], e.docs[ci], ci, k); why != "" {
				return e.violate([]string{"C11"}, "isolation."+what, "step %d after %s on collection %d: collection %d changed: %s", e.step, op, op.Coll, ci, why)
			}
		}
	}
	if e.w2 != nil && op.Handle != 9 {
		if why, _, what := e.readKey(e.w2.Colls[0][0], e.w2.Handles[0], e.docs2, 0, op.Key); why != "" {
			return e.violate([]string{"C11"}, "isolation."+what, "step %d after %s: the other bucket changed: %s", e.step, op, why)
		}
	}
	if e.p.ReadAll && op.Handle != 9 {
		for _, k := range keysOf(docs, "") {
			if k == op.Key {
				continue
			}
			if why, _, what := e.readKey(ds, bucket, docs, op.Coll, k); why != "" {
				return e.violate([]string{"C01", "C11"}, "otherkey."+what, "step %d after %s: another key of the same collection changed: %s", e.step, op, why)
			}
		}
	}
	return nil
}

func keysOf(m map[string]Doc, extra string) []string {
	seen := map[string]bool{}
	var ks []string
	for k := range m {
		ks = append(ks, k)
		seen[k] = true
	}
	if extra != "" && !seen[extra] {
		ks = append(ks, extra)
	}
	sort.Strings(ks)
	return ks
}

// ---------------------------------------------------------------------------------------
// Backfill (Dump feed) against the model: C09 sequential half, and the second observer of
// C05 / C17.
// ---------------------------------------------------------------------------------------

func (e *e1) doBackfill(op *Op) *Violation {
	docs := e.docs[op.Coll]
	var cass []uint64
	for _, d := range docs {
		cass = append(cass, d.Cas)
	}
	sort.Slice(cass, func(i, j int) bool { return cass[i] < cass[j] })
	var start uint64
	switch op.CasMode {
	case "", "zero":
		start = 0
	case "mid":
		if len(cass) > 0 {
			start = cass[len(cass)/2]
		}
	case "max":
		if len(cass) > 0 {
			start = cass[len(cass)-1]
		}
	case "above":
		start = e.maxCas + 1
	}
	if start == 1 {
		start = 2
	}
	e.feedN++
	firedBefore := e.armFaults()
	f, err := e.w.StartFeed(0, op.Coll, fmt.Sprintf("dump%d", e.feedN), start, true, op.WOpt == 1, "", nil)
	vfs.ClearFaults()
	if kind := e.faultFired(firedBefore); kind != "" && err != nil && ioFailure(&Res{Err: classify(err), ErrText: err.Error()}) {
		// the backfill query was hit by an injected failure and the call said so: no feed was started
		e.probe("fault.backfill-failed:" + kind)
		synctest.Wait()
		return nil
	}
	if err != nil {
		return e.violate([]string{"C09"}, "backfill.start", "step %d: starting a dump feed failed: %v", e.step, err)
	}
	synctest.Wait()
	if !f.IsDone() {
		return e.violate([]string{"C09", "C16"}, "backfill.done", "step %d: dump feed from CAS %d did not finish", e.step, start)
	}
	f.Stop() // releases the feed's terminator watcher
	synctest.Wait()
	evs := f.Snapshot()
	e.logf("#%d Backfill(c%d from %d) -> %d events", e.step, op.Coll, start, len(evs))
	if len(evs) < 2 || evs[0].Opcode != sgbucket.FeedOpBeginBackfill || evs[len(evs)-1].Opcode != sgbucket.FeedOpEndBackfill {
		return e.violate([]string{"C09"}, "backfill.markers", "step %d: dump feed events are not bracketed by begin/end markers: %v", e.step, evs)
	}
	evs = evs[1 : len(evs)-1]
	// expected: every document with cas >= start, in CAS order
	type kd struct {
		k string
		d Doc
	}
	var want []kd
	for k, d := range docs {
		if d.Cas >= start {
			want = append(want, kd{k, d})
		}
	}
	sort.Slice(want, func(i, j int) bool { return want[i].d.Cas < want[j].d.Cas })
	e.res.Stats.NonTrivial = e.res.Stats.NonTrivial || len(want) > 0
	keysOnly := op.WOpt == 1
	for i, o := range evs {
		if i >= len(want) {
			return e.violate([]string{"C09"}, "backfill.extra", "step %d: backfill from CAS %d delivered an unexpected event %s", e.step, start, o)
		}
		x := want[i].d.event(want[i].k)
		if o.Key != x.Key {
			// either order or membership
			return e.violate([]string{"C09"}, "backfill.order", "step %d: backfill from CAS %d: event %d is %s, expected key %q (cas %d)", e.step, start, i, o, x.Key, x.Cas)
		}
		if keysOnly {
			x.HasBody, x.Body, x.X = false, "", map[string]string{}
			o.DataType &^= sgbucket.FeedDataTypeJSON
			x.JSON = -1
		}
		if lv, ok := e.liveByCas[fmt.Sprintf("%d/%s/%d", op.Coll, o.Key, o.Cas)]; ok && !keysOnly {
			// the statement's own yardstick: the backfilled event equals the live event of the same mutation
			lx := &ExpEvent{Key: lv.Key, Deletion: lv.Opcode == sgbucket.FeedOpDeletion, HasBody: lv.HasBody, Body: lv.Body, X: lv.X, JSON: -1, Cas: lv.Cas, Exp: lv.Exp, Rev: lv.Rev}
			if lv.DataType&sgbucket.FeedDataTypeJSON != 0 {
				lx.JSON = 1
			} else if lv.HasBody {
				lx.JSON = 0
			}
			if what, tags := compareEvent(o, lx, "C09"); what != "" && !strings.HasPrefix(what, "expiry") {
				return e.violate(tags, "backfill.vs-live."+strings.SplitN(what, " ", 2)[0], "step %d: the backfill event %s differs from the live event %s that the same mutation (CAS %d) produced: %s", e.step, o, lv, o.Cas, what)
			} else if o.Exp != lv.Exp {
				return e.violate([]string{"C09"}, "backfill.vs-live.expiry", "step %d: the backfill event of %q (CAS %d) carries expiry %d, the live event of the same mutation carried %d", e.step, o.Key, o.Cas, o.Exp, lv.Exp)
			}
		}
		if what, tags := compareEvent(o, x, "C09"); what != "" {
			return e.violate(tags, "backfill."+strings.SplitN(what, " ", 2)[0], "step %d: backfill event %s does not describe the document's current state %s: %s", e.step, o, want[i].d, what)
		}
	}
	if len(evs) < len(want) {
		return e.violate([]string{"C09"}, "backfill.missing", "step %d: backfill from CAS %d delivered %d events, expected %d (missing %q)", e.step, start, len(evs), len(want), want[len(evs)].k)
	}
	return nil
}

func (e *e1) doPurge(op *Op) *Violation {
	var want int64
	for _, docs := range e.docs {
		for _, d := range docs {
			if d.Exists && !d.HasBody {
				want++
			}
		}
	}
	via := e.w.Handles[0]
	var fresh *rosmar.Bucket
	if op.Dur%3 == 0 && e.w2 == nil {
		// through a brand-new handle of the bucket, which has not opened a single collection yet
		if b, err := rosmar.OpenBucket(e.w.URL, e.w.Name, rosmar.CreateOrOpen); err == nil {
			fresh, via = b, b
			e.probe("purge.through-fresh-handle")
		}
	}
	firedBefore := e.armFaults()
	r := Exec(nil, via, op, nowUnix(), &e.ctx)
	vfs.ClearFaults()
	if fresh != nil {
		fresh.Close(context.Background())
	}
	synctest.Wait()
	e.logf("#%d Purge -> %s count=%d (want %d)", e.step, r, r.Count, want)
	if kind := e.faultFired(firedBefore); kind != "" && ioFailure(&r) {
		e.probe("fault.op-failed:" + kind)
		want = -1 // failed under an injected disk fault: nothing may have been purged
	}
	if want == -1 {
		// fall through to the read-back of everything against the unchanged model
	} else if r.Err != "" {
		return e.violate([]string{"C05"}, "purge.error", "step %d: PurgeTombstones failed: %s", e.step, r.ErrText)
	}
	if want >= 0 && r.Count != want {
		return e.violate([]string{"C05"}, "purge.count", "step %d: PurgeTombstones removed %d documents, the bucket holds %d tombstones", e.step, r.Count, want)
	}
	if want > 0 {
		e.res.Stats.NonTrivial = true
	}
	for ci, docs := range e.docs {
		for k, d := range docs {
			if want >= 0 && d.Exists && !d.HasBody {
				delete(docs, k)
			}
			_ = ci
		}
	}
	for ci, f := range e.live {
		evs := f.Snapshot()
		if len(evs) != e.liveIdx[ci] {
			return e.violate([]string{"C08"}, "event.spurious", "step %d: PurgeTombstones delivered a feed event %s", e.step, evs[e.liveIdx[ci]])
		}
	}
	// read everything back
	for ci, docs := range e.docs {
		for _, k := range e.allKeys() {
			if why, tags, what := e.readKey(e.w.Colls[0][ci], e.w.Handles[0], docs, ci, k); why != "" {
				return e.violate(append(tags, "C05"), "purge.readback."+what, "step %d after PurgeTombstones: %s", e.step, why)
			}
		}
	}
	return nil
}

func (e *e1) allKeys() []string {
	seen := map[string]bool{}
	for _, op := range e.p.Ops {
		if op.Key != "" {
			seen[op.Key] = true
		}
	}
	var ks []string
	for k := range seen {
		ks = append(ks, k)
	}
	sort.Strings(ks)
	return ks
}

// doReopen closes the (on-disk) bucket cleanly and opens it again: everything must be as
// the model says, and the feeds are restarted.
func (e *e1) doReopen(op *Op) *Violation {
	restart := op.Kind == "Restart"
	if restart && !e.p.OnDisk {
		return nil
	}
	for _, f := range e.live {
		f.Stop()
	}
	synctest.Wait()
	e.w.Handles[0].Close(context.Background())
	synctest.Wait()
	downtime := 0
	if e.p.Prop == "C14" && !restart && e.p.OnDisk {
		downtime = op.Dur % 50 // simulated seconds during which the bucket is not open anywhere
		time.Sleep(time.Duration(downtime) * time.Second)
	}
	mode := rosmar.OpenMode(rosmar.ReOpenExisting)
	if !e.p.OnDisk || op.Dur%2 == 1 {
		mode = rosmar.CreateOrOpen // the data of an in-memory bucket outlives its handles; on disk both modes must do
	}
	if restart {
		// a new process: empty registry, a hybrid clock that remembers nothing, and a wall clock
		// that is EARLIER than before the restart
		rosmar.VerifResetProcess()
		e.clockBack += uint64(3600+op.Dur) * 1e9
		back := e.clockBack
		rosmar.VerifSetClock(func() uint64 { return uint64(time.Now().UnixNano()) - back })
		e.probe("restart.clock-earlier")
		// timestamps drawn straight from the clock (bursts) or by another bucket were never persisted by
		// this bucket: after a restart only what it committed itself is a lower bound
		e.maxIssued = e.maxBucketCas
		if op.Dur%2 == 0 {
			// the new process uses another bucket first (created, written, deleted): the clock it leaves
			// behind is low, and must still be raised when this bucket is opened afterwards
			if ob, err := rosmar.OpenBucket(rosmar.InMemoryURL, e.w.Name+"-first", rosmar.CreateOrOpen); err == nil {
				if ds := ob.DefaultDataStore(); ds != nil {
					_ = ds.SetRaw("x", 0, nil, []byte("x"))
				}
				_ = ob.CloseAndDelete(context.Background())
				e.probe("restart.other-bucket-first")
			}
		}
	}
	if op.Dur%7 == 3 && !e.anyExpiry() {
		// one statement of the open fails: the caller tries again. (Not when some document carries an
		// expiry: the reopened bucket may start its sweep at once, on another goroutine, and a denied
		// statement THERE is not an error rosmar returns to anybody - doExpiration panics.)
		ArmStmtFault(1 + op.Dur%25)
	}
	b, err := rosmar.OpenBucket(e.w.URL, e.w.Name, mode)
	DisarmStmtFault()
	if err != nil && injectedFailure(&Res{Err: EOther, ErrText: err.Error()}) {
		e.probe("fault.open-failed")
		b, err = rosmar.OpenBucket(e.w.URL, e.w.Name, mode)
	}
	if err != nil {
		return e.violate([]string{"C13", "C10"}, "reopen.open", "step %d: reopening the bucket failed: %v", e.step, err)
	}
	e.w.Handles[0] = b
	for i := 0; i < e.p.NColl; i++ {
		var ds sgbucket.DataStore
		if i == 0 {
			ds = b.DefaultDataStore()
		} else {
			ds, err = b.NamedDataStore(collNames[i])
			if err != nil {
				return e.violate([]string{"C13"}, "reopen.coll", "step %d: collection %d missing after reopen: %v", e.step, i, err)
			}
		}
		e.w.Colls[0][i] = ds
		e.feedN++
		f, err := e.w.StartFeed(0, i, fmt.Sprintf("live%d-%d", i, e.feedN), sgbucket.FeedNoBackfill, false, false, "", nil)
		if err != nil {
			e.res.Trouble = "restart feed: " + err.Error()
			return nil
		}
		e.live[i] = f
		e.liveIdx[i] = 0
	}
	synctest.Wait()
	e.logf("#%d Reopen (closed for %d s)", e.step, downtime)
	if downtime > 0 {
		// whatever came due while the bucket was closed must be expired shortly after the reopen
		if v := e.doAdvance(&Op{Kind: "Advance", Dur: 7, WOpt: 1}); v != nil {
			v.Msg = "after a close, " + fmt.Sprint(downtime) + " s of downtime and a reopen: " + v.Msg
			return v
		}
	} else {
		// a document whose expiry time had been reached (but which the sweep, armed in whole seconds
		// from the write, had not reached yet) is swept as soon as the bucket is open again - possibly
		// before any feed is registered: look at the documents themselves (zero time passes)
		if v := e.doAdvance(&Op{Kind: "Advance", Dur: 0, WOpt: 1}); v != nil {
			v.Msg = "right after a close and reopen: " + v.Msg
			return v
		}
	}
	for ci, docs := range e.docs {
		for _, k := range e.allKeys() {
			if why, tags, what := e.readKey(e.w.Colls[0][ci], e.w.Handles[0], docs, ci, k); why != "" {
				return e.violate(append(tags, "C13", "C10"), "reopen.readback."+what, "step %d after close and reopen: %s", e.step, why)
			}
		}
	}
	return nil
}

// resForLog renders a result for the trace. When an xattr call has several reasons to fail,
// which one rosmar reports depends on Go map iteration order inside rosmar; the trace only
// says that it failed, so that traces stay replay-stable.
func resForLog(op *Op, r Res) string {
	if r.Err != "" && r.Err != EPanic && (xattrFamilyKinds[op.Kind]) {
		r.Err = "failed"
	}
	return r.String()
}

// doClock changes what the hybrid logical clock reads as physical time (C04).
func (e *e1) doClock(op *Op) *Violation {
	switch op.CasMode {
	case "stall":
		fixed := uint64(time.Now().UnixNano()) - e.clockBack
		rosmar.VerifSetClock(func() uint64 { return fixed })
	case "back":
		e.clockBack += uint64(1+op.Dur) * 1e9
		back := e.clockBack
		n := uint64(0)
		rosmar.VerifSetClock(func() uint64 { n++; return uint64(time.Now().UnixNano()) - back - n*1000 })
	case "jump":
		fwd := uint64(1+op.Dur) * 1e9
		back := e.clockBack
		rosmar.VerifSetClock(func() uint64 { return uint64(time.Now().UnixNano()) - back + fwd })
	default:
		back := e.clockBack
		rosmar.VerifSetClock(func() uint64 { return uint64(time.Now().UnixNano()) - back })
	}
	e.probe("clock." + op.CasMode)
	e.logf("#%d Clock(%s)", e.step, op.CasMode)
	return nil
}

// doAdvance lets simulated time pass with no client activity and judges expiry (C14):
// a document may be tombstoned only once its deadline has passed, and must be within a few
// seconds after it, each time with one deletion event on the collection's feed.
func (e *e1) doAdvance(op *Op) *Violation {
	time.Sleep(time.Duration(op.Dur)*time.Second + time.Duration(op.Amt)*time.Millisecond)
	synctest.Wait()
	now := nowUnix()
	e.logf("#%d Advance(%ds %dms) -> now=%d", e.step, op.Dur, op.Amt, now)
	const grace = 5
	type cev struct {
		ci int
		o  ObsEvent
	}
	var all []cev
	for ci, f := range e.live {
		evs := f.Snapshot()
		for _, o := range evs[e.liveIdx[ci]:] {
			all = append(all, cev{ci, o})
		}
		e.liveIdx[ci] = len(evs)
	}
	sort.SliceStable(all, func(i, j int) bool { return all[i].o.Cas < all[j].o.Cas })
	for _, ce := range all {
		ci, o := ce.ci, ce.o
		docs := e.docs[ci]
		d, ok := docs[o.Key]
		if !ok || d.Exp == 0 || o.Opcode != sgbucket.FeedOpDeletion {
			tags := []string{"C14", "C08"}
			for oc, odocs := range e.docs {
				if od, has := odocs[o.Key]; has && oc != ci && od.Exp != 0 {
					tags = append(tags, "C11") // the same key has an expiry in force in ANOTHER collection
				}
			}
			return e.violate(tags, "expiry.spurious", "step %d: while time passed with no client activity the feed of collection %d received %s, but that key has no expiry in force (model: %s)", e.step, ci, o, d)
		}
		if d.Exp > now {
			return e.violate([]string{"C14"}, "expiry.early", "step %d: %q was expired at %d, before its expiry time %d", e.step, o.Key, now, d.Exp)
		}
		n := tombstoneOf(d)
		n.Rev = d.Rev + 1
		n.Cas = o.Cas
		if o.Cas <= e.maxIssued {
			return e.violate([]string{"C04", "C14"}, "cas.monotonic", "step %d: the expiry of %q was stamped CAS %d, not above the highest CAS handed out so far (%d)", e.step, o.Key, o.Cas, e.maxIssued)
		}
		e.maxIssued = o.Cas
		if o.Cas > e.maxCas {
			e.maxCas = o.Cas
		}
		if what, tags := compareEvent(o, n.event(o.Key), "C08"); what != "" {
			return e.violate(append(tags, "C14"), "expiry.event."+strings.SplitN(what, " ", 2)[0], "step %d: the deletion event of the expired %q (%s) is wrong: %s", e.step, o.Key, o, what)
		}
		docs[o.Key] = n
		e.casHist[e.key(ci, o.Key)] = append(e.casHist[e.key(ci, o.Key)], n.Cas)
		e.probe("expiry.fired")
		e.res.Stats.NonTrivial = true
	}
	for ci, docs := range e.docs {
		for _, k := range keysOf(docs, "") {
			d := docs[k]
			if op.WOpt == 1 && d.Exists && d.Exp != 0 && !d.ExpAny && d.Exp <= now {
				// Right after a reopen the expiry timer may fire before any feed is registered again, so
				// the deletion event can legitimately have gone to nobody: look at the document itself.
				var names []string
				for n := range d.X {
					names = append(names, n)
				}
				names = append(names, "$document")
				_, xv, cas, err := e.w.Colls[0][ci].GetWithXattrs(context.Background(), k, names)
				if _, _, gerr := e.w.Colls[0][ci].GetRaw(k); gerr != nil && err == nil && cas != d.Cas {
					n := tombstoneOf(d)
					n.Rev, n.Cas = d.Rev+1, cas
					_ = xv
					docs[k] = n
					if cas > e.maxCas {
						e.maxCas = cas
					}
					if cas > e.maxIssued {
						e.maxIssued = cas
					}
					e.probe("expiry.fired-unobserved-after-reopen")
					continue
				}
			}
			if d.HasBody && d.Exp != 0 && !d.ExpAny && d.Exp+grace <= now {
				return e.violate([]string{"C14"}, "expiry.late", "step %d: %q (collection %d) has expiry %d but is still live at %d, %d s after its deadline, and no deletion event was delivered", e.step, k, ci, d.Exp, now, now-d.Exp)
			}
		}
	}
	// read everything back: live documents still readable with their expiry, expired ones gone
	for ci, docs := range e.docs {
		for _, k := range e.allKeys() {
			if why, tags, what := e.readKey(e.w.Colls[0][ci], e.w.Handles[0], docs, ci, k); why != "" {
				if d := docs[k]; d.HasBody && d.Exp != 0 && d.Exp <= now {
					// its expiry time has passed and it reads differently, yet the collection's feed was told
					// nothing: a mutation (the sweep's deletion) without its event
					tags = append(tags, "C08")
					why += " (no deletion event reached the feed of the collection)"
				}
				return e.violate(append(tags, "C14"), "expiry.readback."+what, "step %d after %d s passed: %s", e.step, op.Dur, why)
			}
		}
	}
	return nil
}

// doRecreateColl drops a named collection and creates it again (C11): exactly its documents,
// design documents and feeds go away, the new collection is empty, everything else is untouched
// (the general read-back of the other collections follows as for every step).
func (e *e1) doRecreateColl(op *Op) *Violation {
	if op.Coll == 0 || op.Coll >= e.p.NColl {
		return nil
	}
	b := e.w.Handles[0]
	name := collNames[op.Coll]
	dropVia := b
	if op.Dur%3 == 1 && e.w2 == nil {
		// through a brand-new handle of the bucket that has not opened the collection
		if fresh, err := rosmar.OpenBucket(e.w.URL, e.w.Name, rosmar.CreateOrOpen); err == nil {
			dropVia = fresh
			defer fresh.Close(context.Background())
			e.probe("drop.through-fresh-handle")
		}
	}
	if err := dropVia.DropDataStore(name); err != nil {
		return e.violate([]string{"C11"}, "drop.error", "step %d: DropDataStore(%s) failed: %v", e.step, name, err)
	}
	synctest.Wait()
	e.logf("#%d RecreateColl(c%d)", e.step, op.Coll)
	list, err := b.ListDataStores()
	if err != nil {
		return e.violate([]string{"C11"}, "drop.list", "step %d: ListDataStores failed after a drop: %v", e.step, err)
	}
	want := map[string]bool{}
	for i := 0; i < e.p.NColl; i++ {
		if i != op.Coll {
			want[collNames[i].String()] = true
		}
	}
	got := map[string]bool{}
	for _, n := range list {
		got[n.ScopeName()+"."+n.CollectionName()] = true
	}
	for n := range want {
		if !got[n] {
			return e.violate([]string{"C11"}, "drop.list", "step %d: after dropping %s the surviving collection %s is no longer listed (%v)", e.step, name, n, keysOfSet(got))
		}
	}
	if got[name.String()] {
		return e.violate([]string{"C11"}, "drop.list", "step %d: the dropped collection %s is still listed", e.step, name)
	}
	if !e.live[op.Coll].IsDone() {
		return e.violate([]string{"C11", "C16"}, "drop.feed", "step %d: the feed of the dropped collection %s is still running", e.step, name)
	}
	for ci, f := range e.live {
		if ci != op.Coll && f.IsDone() {
			return e.violate([]string{"C11", "C16"}, "drop.other-feed", "step %d: dropping %s ended the feed of collection %d", e.step, name, ci)
		}
		if ci != op.Coll && len(f.Snapshot()) != e.liveIdx[ci] {
			return e.violate([]string{"C11"}, "feed.isolation", "step %d: dropping %s delivered an event to the feed of collection %d", e.step, name, ci)
		}
	}
	stale := e.w.Colls[0][op.Coll] // the data store object obtained before the drop
	ds, err := b.NamedDataStore(name)
	if err != nil {
		return e.violate([]string{"C11"}, "recreate.error", "step %d: re-creating %s failed: %v", e.step, name, err)
	}
	var staleCache *Violation
	if dropVia != b {
		// Recorded finding KF-C11-stale-handle-cache: the handle that had the collection open keeps its
		// cached object for it after the drop through the other handle; NamedDataStore hands that out
		// instead of creating the collection anew. Seen here as: asked for, yet not listed.
		relisted := map[string]bool{}
		if l2, lerr := b.ListDataStores(); lerr == nil {
			for _, n := range l2 {
				relisted[n.ScopeName()+"."+n.CollectionName()] = true
			}
		}
		if !relisted[name.String()] {
			staleCache = e.violate([]string{"C11"}, "recreate.stale-handle", "step %d: %s was dropped through another handle of the bucket; NamedDataStore(%s) through the handle that had it open succeeds but the collection is not re-created (ListDataStores: %v): the handle still uses its cached object of the dropped collection", e.step, name, name, keysOfSet(relisted))
			staleCache.Continue = true
			// work-around, so that the run can go on: drop it once more through the stale handle
			_ = b.DropDataStore(name)
			if ds, err = b.NamedDataStore(name); err != nil {
				return e.violate([]string{"C11"}, "recreate.error", "step %d: re-creating %s failed: %v", e.step, name, err)
			}
		}
	}
	// a write through the object of the DROPPED collection must not land anywhere else (it may fail)
	_ = stale.Set("k1", 0, nil, []byte(`{"stale":true}`))
	_, _ = stale.Add("kstale", 0, []byte(`{"stale":true}`))
	e.w.Colls[0][op.Coll] = ds
	e.docs[op.Coll] = map[string]Doc{}
	if e.ddocs != nil {
		delete(e.ddocs, op.Coll)
	}
	if dd, err := ds.(*rosmar.Collection).GetDDocs(); err != nil || len(dd) != 0 {
		return e.violate([]string{"C11"}, "recreate.ddocs", "step %d: the re-created collection %s has design documents %v (err=%v)", e.step, name, dd, err)
	}
	e.feedN++
	f, ferr := e.w.StartFeed(0, op.Coll, fmt.Sprintf("live%d-%d", op.Coll, e.feedN), sgbucket.FeedNoBackfill, false, false, "", nil)
	if ferr != nil {
		e.res.Trouble = "restart feed: " + ferr.Error()
		return nil
	}
	e.live[op.Coll].Stop()
	e.live[op.Coll] = f
	e.liveIdx[op.Coll] = 0
	synctest.Wait()
	for _, k := range e.allKeys() {
		if why, _, what := e.readKey(ds, b, e.docs[op.Coll], op.Coll, k); why != "" {
			return e.violate([]string{"C11"}, "recreate.not-empty."+what, "step %d: the re-created collection %s is not empty: %s", e.step, name, why)
		}
	}
	e.res.Stats.NonTrivial = true
	e.probe("collection.recreated")
	if staleCache != nil {
		return staleCache
	}
	return nil
}

// doEnsureColl asks for a collection that already exists to be created (what a caller does that
// "ensures" its collections at start). Whether that is refused or accepted is not specified; either
// way the name must go on addressing the same collection, with everything in it, and no other
// collection may notice.
func (e *e1) doEnsureColl(op *Op) *Violation {
	if op.Coll >= e.p.NColl {
		return nil
	}
	b := e.w.Handles[0]
	name := collNames[op.Coll]
	cerr := b.CreateDataStore(context.Background(), name)
	e.logf("#%d EnsureColl(c%d) -> %v", e.step, op.Coll, cerr)
	var ds sgbucket.DataStore
	if op.Coll == 0 {
		ds = b.DefaultDataStore()
	} else {
		var err error
		if ds, err = b.NamedDataStore(name); err != nil {
			return e.violate([]string{"C11"}, "ensure.error", "step %d: NamedDataStore(%s) failed after CreateDataStore of the existing collection: %v", e.step, name, err)
		}
	}
	if ds == nil {
		return e.violate([]string{"C11"}, "ensure.error", "step %d: the collection %s cannot be obtained any more after CreateDataStore of the existing collection (%v)", e.step, name, cerr)
	}
	e.w.Colls[0][op.Coll] = ds
	synctest.Wait()
	for ci := range e.docs {
		for _, k := range e.allKeys() {
			if why, _, what := e.readKey(e.w.Colls[0][ci], b, e.docs[ci], ci, k); why != "" {
				return e.violate([]string{"C11"}, "ensure."+what, "step %d: after CreateDataStore(%s) of the existing collection (result: %v), collection %d reads differently: %s", e.step, name, cerr, ci, why)
			}
		}
	}
	e.probe("collection.ensured")
	return nil
}

// anyExpiry: does any document (or tombstone) of the bucket carry, or possibly carry, an expiry?
func (e *e1) anyExpiry() bool {
	for _, docs := range e.docs {
		for _, d := range docs {
			if d.Exp != 0 || d.ExpAny {
				return true
			}
		}
	}
	return false
}

// armFaults plants the faults planned for the current step; returns the fired-counters before.
func (e *e1) armFaults() [5]int64 {
	var before [5]int64
	for _, f := range e.p.Faults {
		if f.AtOp == e.step && f.Kind == 5 {
			e.sched.CommitBusy = 1 + f.Offset%2 // the transaction's first attempt(s) fail with BUSY right before COMMIT
		}
	}
	e.commitBusyBefore = e.sched.CommitBusyFired
	e.stmtFiredBefore = DisarmStmtFault()
	for _, f := range e.p.Faults {
		if f.AtOp == e.step && f.Kind == 6 {
			ArmStmtFault(1 + f.Offset)
		}
	}
	if !e.p.OnDisk {
		return before
	}
	for k := 1; k <= 4; k++ {
		before[k] = vfs.Fired(k)
	}
	for _, f := range e.p.Faults {
		if f.AtOp == e.step {
			if f.Kind == 5 {
				continue
			}
			if f.Kind == vfs.Busy {
				vfs.AddFault(vfs.LockOrdinal()+int64(f.Offset), f.Kind)
			} else {
				vfs.AddFault(vfs.Ordinal()+int64(f.Offset), f.Kind)
			}
		}
	}
	return before
}

func (e *e1) faultFired(before [5]int64) string {
	e.sched.CommitBusy = 0
	if n := e.sched.CommitBusyFired - e.commitBusyBefore; n > 0 {
		if e.res.Stats.Faults == nil {
			e.res.Stats.Faults = map[string]int{}
		}
		e.res.Stats.Faults["busy-before-commit(retry)"] += n
		e.probe("fault.transaction-retried")
	}
	if n := DisarmStmtFault() - e.stmtFiredBefore; n > 0 {
		if e.res.Stats.Faults == nil {
			e.res.Stats.Faults = map[string]int{}
		}
		e.res.Stats.Faults["statement-failed"] += int(n)
		return "statement-failed"
	}
	if !e.p.OnDisk {
		return ""
	}
	for k := 1; k <= 4; k++ {
		if n := vfs.Fired(k) - before[k]; n > 0 {
			if e.res.Stats.Faults == nil {
				e.res.Stats.Faults = map[string]int{}
			}
			e.res.Stats.Faults[vfs.KindNames[k]] += int(n)
			return vfs.KindNames[k]
		}
	}
	return ""
}

// ioFailure: did the call fail because of the storage (as opposed to a semantic refusal)?
func ioFailure(r *Res) bool {
	if r.Err == EDB {
		return true
	}
	if r.Err == EOther || r.Err == EClosed {
		t := strings.ToLower(r.ErrText)
		return strings.Contains(t, "disk i/o") || strings.Contains(t, "disk is full") || strings.Contains(t, "database is locked") || strings.Contains(t, "sqlite") || strings.Contains(t, "not authorized") || strings.Contains(t, "is prohibited")
	}
	return false
}

// For returns the violation of this run that belongs to prop (preferring the given oracle).
func (r *RunResult) For(prop, oracle string) *Violation {
	var first *Violation
	cands := r.All
	if len(cands) == 0 && r.Violation != nil {
		cands = []*Violation{r.Violation}
	}
	for _, v := range cands {
		if v.Has(prop) {
			if oracle != "" && v.Oracle == oracle {
				return v
			}
			if first == nil {
				first = v
			}
		}
	}
	if oracle != "" {
		return nil
	}
	return first
}

// doHLCBurst draws op.Dur timestamps straight from the process-wide hybrid logical clock (as that
// many writes would) under whatever the clock adversary currently does: each must exceed the last.
func (e *e1) doHLCBurst(op *Op) *Violation {
	prev := e.maxIssued
	for i := 0; i < op.Dur; i++ {
		ts := rosmar.VerifHLCNow()
		if ts <= prev {
			return e.violate([]string{"C04"}, "cas.monotonic", "step %d: timestamp #%d of a burst of %d draws from the hybrid clock is %d, not above the previous %d", e.step, i, op.Dur, ts, prev)
		}
		prev = ts
	}
	e.maxIssued = prev
	if prev > e.maxCas {
		e.maxCas = prev
	}
	e.logf("#%d HLCBurst(%d)", e.step, op.Dur)
	e.probe("hlc.burst")
	return nil
}

func ifelseI(c bool, a, b int) int {
	if c {
		return a
	}
	return b
}
