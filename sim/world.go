package sim

import (
	"context"
	"fmt"
	"os"
	"path/filepath"
	"sort"
	"strings"
	"sync"
	"testing"
	"testing/synctest"
	"time"

	sgbucket "github.com/couchbase/sg-bucket"
	"github.com/couchbaselabs/rosmar"
)

// ---------------------------------------------------------------------------------------
// Bubble runner
// ---------------------------------------------------------------------------------------

type BubbleOutcome struct {
	Leaked bool   // goroutines were still blocked when the bubble's root returned
	Panic  string // panic raised on the root goroutine (not the leak panic)
}

// RunBubble executes fn as the root of a fresh synctest bubble. The fake clock starts at
// 2000-01-01T00:00:00Z. A leak of blocked goroutines is reported, not fatal.
func RunBubble(t *testing.T, fn func()) (out BubbleOutcome) {
	defer func() {
		if r := recover(); r != nil {
			msg := fmt.Sprint(r)
			if strings.Contains(msg, "blocked goroutines remain") || strings.Contains(msg, "deadlock") {
				out.Leaked = true
				return
			}
			out.Panic = msg
		}
	}()
	synctest.Test(t, func(t *testing.T) {
		defer func() {
			if r := recover(); r != nil {
				out.Panic = fmt.Sprint(r) + "\n" + string(stackOf())
			}
		}()
		fn()
	})
	return
}

func stackOf() []byte {
	buf := make([]byte, 16384)
	n := runtimeStack(buf)
	return buf[:n]
}

// ---------------------------------------------------------------------------------------
// Observed feed events
// ---------------------------------------------------------------------------------------

type ObsEvent struct {
	Opcode    sgbucket.FeedOpcode
	Key       string
	HasBody   bool
	Body      string
	X         map[string]string
	DataType  uint8
	Cas       uint64
	Exp       uint32
	Rev       uint64
	CollID    uint32
	Step      int // global step at which the callback ran
	DecodeErr string
}

func (e ObsEvent) String() string {
	b := "<none>"
	if e.HasBody {
		b = fmt.Sprintf("%q", e.Body)
	}
	return fmt.Sprintf("%s(%s body=%s x=%s dt=%d cas=%d exp=%d rev=%d coll=%d)", e.Opcode, e.Key, b, sortedMap(e.X), e.DataType, e.Cas, e.Exp, e.Rev, e.CollID)
}

func decodeEvent(ev sgbucket.FeedEvent) ObsEvent {
	o := ObsEvent{Opcode: ev.Opcode, Key: string(ev.Key), DataType: ev.DataType, Cas: ev.Cas, Exp: ev.Expiry, Rev: ev.RevNo, CollID: ev.CollectionID, X: map[string]string{}}
	if ev.Opcode != sgbucket.FeedOpMutation && ev.Opcode != sgbucket.FeedOpDeletion {
		return o
	}
	val := ev.Value
	if ev.DataType&sgbucket.FeedDataTypeXattr != 0 && len(ev.Value) > 0 { // (keys-only events keep the bit but carry no value)
		body, xattrs, err := sgbucket.DecodeValueWithAllXattrs(ev.Value)
		if err != nil {
			o.DecodeErr = err.Error()
			return o
		}
		val = body
		for k, v := range xattrs {
			o.X[k] = string(v)
		}
		if len(val) == 0 {
			val = nil
		}
	}
	if val != nil {
		o.HasBody, o.Body = true, string(val)
	}
	return o
}

// FeedLog collects what one feed's callback received.
type FeedLog struct {
	mu        sync.Mutex
	ID        string
	Events    []ObsEvent
	Done      chan struct{}
	Term      chan bool
	closed    bool
	AfterDone int // callbacks invoked after the done channel was observed closed
	stepFn    func() int
}

func (f *FeedLog) callback(ev sgbucket.FeedEvent) bool {
	o := decodeEvent(ev)
	f.mu.Lock()
	if f.stepFn != nil {
		o.Step = f.stepFn()
	}
	select {
	case <-f.Done:
		f.AfterDone++
	default:
	}
	f.Events = append(f.Events, o)
	f.mu.Unlock()
	return true
}

func (f *FeedLog) Snapshot() []ObsEvent {
	f.mu.Lock()
	defer f.mu.Unlock()
	return append([]ObsEvent(nil), f.Events...)
}

func (f *FeedLog) IsDone() bool {
	select {
	case <-f.Done:
		return true
	default:
		return false
	}
}

func (f *FeedLog) Stop() {
	if !f.closed && f.Term != nil {
		f.closed = true
		close(f.Term)
	}
}

// ---------------------------------------------------------------------------------------
// World: buckets, collections and feeds of one run
// ---------------------------------------------------------------------------------------

type World struct {
	Dir      string // scratch directory of this run (on-disk buckets)
	OnDisk   bool
	Name     string
	URL      string
	Handles  []*rosmar.Bucket
	Colls    [][]sgbucket.DataStore // [handle][collection]
	CollName []sgbucket.DataStoreNameImpl
	feedSeq  int
}

func nowUnix() uint32 { return uint32(time.Now().Unix()) }

var collNames = []sgbucket.DataStoreNameImpl{
	{Scope: sgbucket.DefaultScope, Collection: sgbucket.DefaultCollection},
	// (collection 1 shares the default scope with collection 0: rosmar starts the per-collection feeds
	// of a bucket-level feed scope by scope in map-iteration order, which no seam controls, so
	// bucket-level feeds - always over collections 0 and 1 - stay within one scope)
	{Scope: sgbucket.DefaultScope, Collection: "c1"},
	{Scope: "s1", Collection: "c2"},
}

func scratchRoot() string {
	if d := os.Getenv("VERIF_SCRATCH"); d != "" {
		return d
	}
	return "/dev/shm"
}

// OpenWorld opens nHandles handles on one bucket with nColl collections each.
func OpenWorld(name string, onDisk bool, nHandles, nColl int) (*World, error) {
	w := &World{OnDisk: onDisk, Name: name}
	if onDisk {
		dir, err := os.MkdirTemp(scratchRoot(), "verif-run-")
		if err != nil {
			return nil, err
		}
		w.Dir = dir
		w.URL = "rosmar://" + filepath.Join(dir, name)
	} else {
		w.URL = rosmar.InMemoryURL
	}
	for h := 0; h < nHandles; h++ {
		if err := w.AddHandle(nColl); err != nil {
			return nil, err
		}
	}
	return w, nil
}

func (w *World) AddHandle(nColl int) error {
	mode := rosmar.CreateOrOpen
	b, err := rosmar.OpenBucket(w.URL, w.Name, rosmar.OpenMode(mode))
	if err != nil {
		return fmt.Errorf("OpenBucket: %w", err)
	}
	w.Handles = append(w.Handles, b)
	var cs []sgbucket.DataStore
	for i := 0; i < nColl; i++ {
		var ds sgbucket.DataStore
		if i == 0 {
			ds = b.DefaultDataStore()
		} else {
			ds, err = b.NamedDataStore(collNames[i])
			if err != nil {
				return fmt.Errorf("NamedDataStore: %w", err)
			}
		}
		if ds == nil {
			return fmt.Errorf("nil datastore %d", i)
		}
		cs = append(cs, ds)
	}
	w.Colls = append(w.Colls, cs)
	if len(w.CollName) < nColl {
		w.CollName = collNames[:nColl]
	}
	return nil
}

// StartFeed starts a feed on one collection through handle h.
func (w *World) StartFeed(h, coll int, id string, backfill uint64, dump, keysOnly bool, ckptPrefix string, stepFn func() int) (*FeedLog, error) {
	f := &FeedLog{ID: id, Done: make(chan struct{}), Term: make(chan bool), stepFn: stepFn}
	args := sgbucket.FeedArguments{ID: id, Backfill: backfill, Dump: dump, KeysOnly: keysOnly, Terminator: f.Term, DoneChan: f.Done, CheckpointPrefix: ckptPrefix}
	c := w.Colls[h][coll].(*rosmar.Collection)
	err := c.StartDCPFeed(context.Background(), args, f.callback, nil)
	return f, err
}

// StartBucketFeed starts a bucket-level (multi-collection) feed through handle h.
func (w *World) StartBucketFeed(h int, colls []int, id string, backfill uint64, dump bool, ckptPrefix string, stepFn func() int, noDone ...bool) (*FeedLog, error) {
	f := &FeedLog{ID: id, Done: make(chan struct{}), Term: make(chan bool), stepFn: stepFn}
	scopes := map[string][]string{}
	for _, c := range colls {
		n := w.CollName[c]
		scopes[n.Scope] = append(scopes[n.Scope], n.Collection)
	}
	args := sgbucket.FeedArguments{ID: id, Backfill: backfill, Dump: dump, Terminator: f.Term, DoneChan: f.Done, Scopes: scopes, CheckpointPrefix: ckptPrefix}
	if len(noDone) > 0 && noDone[0] {
		args.DoneChan = nil // (f.Done then simply never closes)
	}
	err := w.Handles[h].StartDCPFeed(context.Background(), args, f.callback, nil)
	return f, err
}

func (w *World) Cleanup() {
	if w.Dir != "" {
		_ = os.RemoveAll(w.Dir)
	}
}

func sortedEventKeys(m map[string]ObsEvent) []string {
	ks := make([]string, 0, len(m))
	for k := range m {
		ks = append(ks, k)
	}
	sort.Strings(ks)
	return ks
}
