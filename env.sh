# source this: offline Go 1.26.8 environment for the verification harness
export PATH=/opt/veriftools/go1.26.8/bin:$PATH
export GOFLAGS=-mod=mod GOPROXY=off GOSUMDB=off GOTOOLCHAIN=local
export CGO_ENABLED=1
