#!/bin/bash
# Background soak: run the listed checks with several seeds and a longer budget; print only verdict lines.
# usage: ./sweep.sh "<props>" "<seeds>" <budget-seconds>
props=${1:-"C01 C02 C03 C05 C06 C07 C08 C11 C17 C18"}
seeds=${2:-"11 12 13"}
budget=${3:-120}
for s in $seeds; do
  for p in $props; do
    echo "### $p seed=$s"
    ./check $p --seed $s --budget $budget | cut -c1-2500
    echo "exit=$?"
  done
done
